package main

import (
	"context"
	"fmt"
	"math"
	"strconv"
	"strings"
	"time"

	"github.com/redis/rueidis/rueidisprob"
)

func init() {
	suites["sbloom"] = suite{
		rule: "C37: the fake's clock is driven by the harness ('now t' lines). (1) script-level episodes (init/add/exists/reset scripts with arbitrary k, half, colliding indexes, clock steps around the lock expiry, Delete followed by add = RENAME error path) vs the Lean script model incl. raw state dumps; (2) end-to-end episodes: real NewSlidingBloomFilter/Add/AddMulti/Exists/ExistsMulti/Count/Reset/Delete against the fake, windows 1s..10s, clock steps biased to 0, half-1, half, half+1, server calls and answers vs the Lean glue+script model, further NewSlidingBloomFilter constructions for the same name on the populated server in between ('s.init <half>' lines answered by the real constructor's script call); '!exists' on every item whose last add is at most half a window old (judged by the specification); size: AddMulti of 2500 and 1001 keys and ExistsMulti of 1501 / 650 keys (k=7) in ONE call, every item of the batch checked right after the add ('!exists' on items spread over the batch incl. its tail, per-position check of the multi answer), one filter with 1e8 expected items; gated overlapping calls on one filter value; non-trivial = distinct op with a key or index",
		run:  runSBloom,
		replay: func(c *Ctx, lines []string) {
			ep := &sbfEp{}
			for _, l := range lines {
				ep.op(c, l)
			}
		},
	}
}

type sbfEp struct {
	srv     *fakeServer
	now     int64
	bf      rueidisprob.BloomFilter
	name    string
	m, k    uint
	half    int64
	lastAdd map[string]int64
	n       uint // constructor arguments of the episode (for a further construction on the same server)
	rate    float64
	ro      bool
}

func (e *sbfEp) state() string {
	f := e.srv
	f.mu.Lock()
	defer f.mu.Unlock()
	pre := "{" + e.name + "}"
	ex := func(k string) string {
		if f.look(pre+k, e.now) != nil {
			return "1"
		}
		return "0"
	}
	num := func(k string) string {
		if v := f.look(pre+k, e.now); v != nil {
			return v.s
		}
		return "_"
	}
	lock := "_"
	if v := f.look(pre+":lr", e.now); v != nil {
		lock = fmt.Sprint(v.exp)
	}
	return "cur=" + ex("") + " next=" + ex(":n") + " c=" + num(":c") + " nc=" + num(":nc") + " lock=" + lock
}

func (e *sbfEp) keys5() []string {
	p := "{" + e.name + "}"
	return []string{p, p + ":n", p + ":c", p + ":nc", p + ":lr"}
}

func (e *sbfEp) op(c *Ctx, line string) {
	w := strings.Fields(line)
	switch w[0] {
	case "reset":
		// reset <m> <k> <half> ro=<0|1> n=<n> rate=<bits> now=<t>
		n, _ := strconv.ParseUint(strings.TrimPrefix(w[5], "n="), 10, 64)
		rb, _ := strconv.ParseUint(strings.TrimPrefix(w[6], "rate="), 16, 64)
		e.now, _ = strconv.ParseInt(strings.TrimPrefix(w[7], "now="), 10, 64)
		e.half, _ = strconv.ParseInt(w[3], 10, 64)
		e.srv = newFakeServer(func() int64 { return e.now })
		e.name = "bf"
		var err error
		e.bf, err = rueidisprob.NewSlidingBloomFilter(&fakeClient{srv: e.srv}, e.name, uint(n), math.Float64frombits(rb),
			time.Duration(2*e.half)*time.Millisecond, rueidisprob.WithReadOnlyExists(w[4] == "ro=1"))
		ans := "ok"
		if err != nil {
			ans = errClass(err)
			if ans != "err:redis" {
				ans = newErrName(err)
			}
		} else {
			e.m, e.k, _ = rueidisprob.VerifParams(e.bf)
			if fmt.Sprint(e.m) != w[1] || fmt.Sprint(e.k) != w[2] {
				ans = fmt.Sprintf("cfg-mismatch:%d:%d", e.m, e.k)
			}
		}
		e.lastAdd = map[string]int64{}
		e.n, e.rate, e.ro = uint(n), math.Float64frombits(rb), w[4] == "ro=1"
		c.Emit(line, ans+logText(e.srv.takeLog(), e.name), false)
	case "now":
		e.now, _ = strconv.ParseInt(w[1], 10, 64)
		c.Emit(line, "ok", false)
	case "s.state":
		c.Emit(line, e.state(), false)
	case "s.init", "s.add", "s.exists", "s.reset":
		if h, err := strconv.ParseInt(w[len(w)-1], 10, 64); w[0] == "s.init" && err == nil && e.bf != nil && h == e.half {
			// `s.init <the episode's own half>`: the initialisation script as the PACKAGE runs it, through a
			// further NewSlidingBloomFilter for the same name on the populated server (a restarted or second
			// process). The filter value of the episode is replaced by the new one.
			bf, err := rueidisprob.NewSlidingBloomFilter(&fakeClient{srv: e.srv}, e.name, e.n, e.rate,
				time.Duration(2*e.half)*time.Millisecond, rueidisprob.WithReadOnlyExists(e.ro))
			lg := e.srv.takeLog()
			ans := "no-init-call"
			if len(lg) == 1 {
				ans = "bad-call:" + lg[0].name
				if lg[0].name == "sbfinit" && strings.Join(lg[0].keys, ",") == strings.Join(e.keys5(), ",") && strings.Join(lg[0].args, ",") == w[1] {
					ans = lg[0].rep.String()
				}
			}
			if err == nil {
				e.bf = bf
			}
			c.Hit("reopen:" + strings.SplitN(ans, ":", 2)[0])
			c.Emit(line, ans, true)
			return
		}
		var r reply
		e.srv.mu.Lock()
		switch w[0] {
		case "s.init":
			r = e.srv.runScript("sbfinit", e.keys5(), w[1:])
		case "s.add":
			r = e.srv.runScript("sbfadd", e.keys5(), w[1:])
		case "s.exists":
			r = e.srv.runScript("sbfexists", e.keys5(), w[1:])
		case "s.reset":
			r = e.srv.runScript("sbfreset", e.keys5()[:4], nil)
		}
		e.srv.mu.Unlock()
		c.Hit("script:" + w[0] + ":" + string(r.typ))
		c.Emit(line, r.String(), len(w) > 3)
	case "add":
		items := make([]string, 0, len(w)-1)
		for _, x := range w[1:] {
			items = append(items, parseItemWord(x).key)
		}
		ans := guard(func() string {
			if len(items) == 1 && c.Rng.IntN(2) == 0 {
				return errClass(e.bf.Add(bg, items[0]))
			}
			return errClass(e.bf.AddMulti(bg, items))
		})
		if ans == "ok" {
			for _, k := range items {
				e.lastAdd[k] = e.now
			}
		}
		c.Hit("add:" + ans)
		c.Emit(line, ans+logText(e.srv.takeLog(), e.name), len(items) > 0)
	case "exists":
		items := make([]string, 0, len(w)-1)
		for _, x := range w[1:] {
			items = append(items, parseItemWord(x).key)
		}
		ans := guard(func() string {
			var r []bool
			var err error
			if len(items) == 1 && c.Rng.IntN(2) == 0 {
				var b bool
				b, err = e.bf.Exists(bg, items[0])
				r = []bool{b}
			} else {
				r, err = e.bf.ExistsMulti(bg, items)
			}
			if err != nil {
				return errClass(err)
			}
			if r == nil {
				return "nil"
			}
			for i, k := range items {
				if t, ok := e.lastAdd[k]; ok && e.now <= t+e.half && (i >= len(r) || !r[i]) {
					c.Fail("sbloom:lost-within-half-window", line, fmt.Sprintf("item #%d added at %d is reported absent at %d (half window %d)", i, t, e.now, e.half))
				}
			}
			return boolsText(r)
		})
		c.Emit(line, ans+logText(e.srv.takeLog(), e.name), len(items) > 0)
	case "!exists":
		it := parseItemWord(w[1])
		ans := guard(func() string {
			r, err := e.bf.Exists(bg, it.key)
			if err != nil {
				return errClass(err)
			}
			if r {
				return "1"
			}
			return "0"
		})
		e.srv.takeLog()
		c.Hit("oracle-exists:" + ans)
		c.Emit(line, ans, true)
	case "count":
		ans := guard(func() string {
			n, err := e.bf.Count(bg)
			if err != nil {
				return errClass(err)
			}
			return fmt.Sprint(n)
		})
		c.Emit(line, ans+logText(e.srv.takeLog(), e.name), false)
	case "greset", "gdelete":
		var err error
		if w[0] == "greset" {
			err = e.bf.Reset(bg)
			if err != nil && errClass(err) == "err:nil" {
				c.Hit("observation:sliding-Reset-returns-redis-nil-on-success")
			}
		} else {
			err = e.bf.Delete(bg)
		}
		e.lastAdd = map[string]int64{}
		c.Emit(line, errClass(err)+logText(e.srv.takeLog(), e.name), false)
	case "overlap":
		a, b := splitSlash(w[1:])
		expA, runA, keysA := e.sub(a)
		expB, runB, keysB := e.sub(b)
		before := map[string]int64{}
		for k, v := range e.lastAdd {
			before[k] = v
		}
		ansA, ansB, log := runOverlap(e.srv, expA, expB, runA, runB)
		checkArgv(c, "sbloom", line, log)
		for _, x := range []struct {
			w, keys []string
			ans     string
		}{{b, keysB, ansB}, {a, keysA, ansA}} {
			if x.w[0] == "add" {
				if x.ans == "ok" {
					for _, k := range x.keys {
						e.lastAdd[k] = e.now
					}
				}
				continue
			}
			for i, k := range x.keys {
				if t, ok := before[k]; ok && e.now <= t+e.half && len(x.ans) == len(x.keys) && x.ans[i] != '1' {
					c.Fail("sbloom:false-negative:overlapping-calls", line, fmt.Sprintf("overlapping Exists reports item #%d added at %d as absent at %d", i, t, e.now))
				}
			}
		}
		c.Hit("overlap:" + a[0] + "/" + b[0])
		c.Emit(line, ansA+logText(logOf(log, 1), e.name)+" | "+ansB+logText(logOf(log, 2), e.name), true)
	default:
		c.Emit(line, "bad-op", false)
	}
}

func (e *sbfEp) sub(w []string) (expect []string, run func(ctx context.Context) string, keys []string) {
	for _, x := range w[1:] {
		keys = append(keys, parseItemWord(x).key)
	}
	if len(keys) > 0 {
		expect = append([]string{fmt.Sprint(e.k), fmt.Sprint(e.half)}, idxStrings(keys, e.m, e.k)...)
	}
	if w[0] == "add" {
		run = func(ctx context.Context) string {
			return guard(func() string { return errClass(e.bf.AddMulti(ctx, keys)) })
		}
	} else {
		run = func(ctx context.Context) string {
			return guard(func() string {
				r, err := e.bf.ExistsMulti(ctx, keys)
				if err != nil {
					return errClass(err)
				}
				if r == nil {
					return "nil"
				}
				return boolsText(r)
			})
		}
	}
	return expect, run, keys
}

func runSBloom(c *Ctx) {
	ep := &sbfEp{}
	// "!exists" goes through the real Exists, which also logs; Lean's oracle does not change the
	// model state, so every oracle line is followed by a model line doing the same call.
	stepT := func(half int64) int64 {
		switch c.Rng.IntN(9) {
		case 0, 1:
			return 0
		case 2:
			return half - 1
		case 3:
			return half
		case 4:
			return half + 1
		case 5:
			return 1
		default:
			return c.Rng.Int64N(half + half/2)
		}
	}
	// (1) script-level
	for epi := 0; epi < max(6, c.N/60); epi++ {
		now := int64(1000 + c.Rng.IntN(1000))
		ep.op(c, fmt.Sprintf("reset 2 1 500 ro=0 n=1 rate=%s now=%d", rateBits(0.5), now))
		for j := 0; j < 30; j++ {
			half := int64(5)
			if c.Rng.IntN(12) == 0 {
				half = 0
			}
			if c.Rng.IntN(2) == 0 {
				now += stepT(5)
				ep.op(c, fmt.Sprintf("now %d", now))
			}
			k := c.Rng.IntN(4)
			cnt := c.Rng.IntN(4) * max(k, 1)
			if c.Rng.IntN(6) == 0 {
				cnt = c.Rng.IntN(7)
			}
			args := []string{fmt.Sprint(k), fmt.Sprint(half)}
			for x := 0; x < cnt; x++ {
				args = append(args, fmt.Sprint(c.Rng.IntN(8)))
			}
			switch r := c.Rng.IntN(40); {
			case r < 14:
				ep.op(c, "s.add "+strings.Join(args, " "))
			case r < 28:
				ep.op(c, "s.exists "+strings.Join(args, " "))
			case r < 34:
				ep.op(c, "s.state")
			case r < 36:
				ep.op(c, "s.reset")
			case r < 38:
				ep.op(c, fmt.Sprintf("s.init %d", half))
			case r < 39:
				ep.op(c, "gdelete")
			default:
				ep.op(c, "count")
			}
		}
		ep.op(c, "s.state")
	}
	// (2) end-to-end
	cfgs := []struct {
		n uint
		r float64
	}{{1, 0.9}, {2, 0.5}, {3, 0.3}, {5, 0.1}, {100, 0.9}, {20, 0.01}, {100000000, 0.01}}
	for epi := 0; epi < max(8, c.N/40); epi++ {
		cf := cfgs[epi%len(cfgs)]
		half := []int64{500, 501, 1000, 5000}[c.Rng.IntN(4)]
		now := int64(1_700_000_000_000 + c.Rng.IntN(100000))
		probe, err := rueidisprob.NewSlidingBloomFilter(&fakeClient{srv: newFakeServer(func() int64 { return 0 })}, "bf", cf.n, cf.r, time.Second)
		if err != nil {
			continue
		}
		m, k, _ := rueidisprob.VerifParams(probe)
		ro := c.Rng.IntN(3) == 0
		ep.op(c, fmt.Sprintf("reset %d %d %d ro=%d n=%d rate=%s now=%d", m, k, half, map[bool]int{false: 0, true: 1}[ro], cf.n, rateBits(cf.r), now))
		pool := make([]item, 8)
		for i := range pool {
			pool[i] = mkItem(fmt.Sprintf("s%d-%d", epi, i))
		}
		for j := 0; j < 40; j++ {
			if c.Rng.IntN(3) > 0 {
				now += stepT(half)
				ep.op(c, fmt.Sprintf("now %d", now))
			}
			switch r := c.Rng.IntN(40); {
			case r < 12:
				n := 1 + c.Rng.IntN(3)
				ws := make([]string, n)
				for i := range ws {
					ws[i] = pool[c.Rng.IntN(len(pool))].word()
				}
				ep.op(c, "add "+strings.Join(ws, " "))
			case r < 20:
				n := c.Rng.IntN(4)
				ws := make([]string, n)
				for i := range ws {
					ws[i] = pool[c.Rng.IntN(len(pool))].word()
				}
				ep.op(c, strings.TrimSpace("exists "+strings.Join(ws, " ")))
			case r < 34:
				// oracle on a fresh-enough item, followed by the same call as a model line
				var fresh []item
				for _, it := range pool {
					if t, ok := ep.lastAdd[it.key]; ok && now <= t+half {
						fresh = append(fresh, it)
					}
				}
				if len(fresh) > 0 {
					it := fresh[c.Rng.IntN(len(fresh))]
					ep.op(c, "!exists "+it.word())
					ep.op(c, "exists "+it.word())
				}
			case r < 36:
				ep.op(c, "count")
			case r < 38:
				ep.op(c, "s.state")
			case r < 39:
				ep.op(c, "greset")
			default:
				if c.Rng.IntN(3) == 0 {
					ep.op(c, "gdelete")
				}
			}
			if c.Rng.IntN(7) == 0 {
				// a further NewSlidingBloomFilter for the same name (restart / second process) must not disturb the filter
				ep.op(c, fmt.Sprintf("s.init %d", half))
			}
		}
		ep.op(c, "s.state")
	}
	// (4) large batches in one call: more than a thousand / a few thousand keys, sizes that are not
	// multiples of round numbers; every item of the batch must be present right away
	for bi, b := range []struct {
		n        uint
		r        float64
		add, ask int
	}{{4000, 0.5, 2500, 300}, {3000, 0.5, 1001, 1501}, {2000, 0.01, 50, 650}} {
		half := int64(500)
		now := int64(1_700_000_000_000 + c.Rng.IntN(100000))
		probe, err := rueidisprob.NewSlidingBloomFilter(&fakeClient{srv: newFakeServer(func() int64 { return 0 })}, "bf", b.n, b.r, time.Second)
		if err != nil {
			continue
		}
		m, k, _ := rueidisprob.VerifParams(probe)
		ep.op(c, fmt.Sprintf("reset %d %d %d ro=%d n=%d rate=%s now=%d", m, k, half, bi%2, b.n, rateBits(b.r), now))
		c.Hit(fmt.Sprintf("big-batch:k=%d:add=%d:ask=%d", k, b.add, b.ask))
		added := make([]item, b.add)
		ws := make([]string, b.add)
		for i := range added {
			added[i] = mkItem(fmt.Sprintf("sbig%d-a%d", bi, i))
			ws[i] = added[i].word()
		}
		ep.op(c, "add "+strings.Join(ws, " "))
		now += 100
		ep.op(c, fmt.Sprintf("now %d", now))
		qs := make([]string, b.ask)
		for i := range qs {
			if i >= b.ask/3 && i%2 == 0 {
				qs[i] = added[len(added)-1-c.Rng.IntN(len(added)/2)].word()
			} else {
				qs[i] = mkItem(fmt.Sprintf("sbig%d-q%d", bi, i)).word()
			}
		}
		ep.op(c, "exists "+strings.Join(qs, " "))
		ep.op(c, "count")
		for j := 0; j < 6; j++ {
			it := added[len(added)-1-j*(len(added)/8)]
			ep.op(c, "!exists "+it.word())
			ep.op(c, "exists "+it.word())
		}
	}
	// (3) overlapping calls on one filter value (gated), same server time
	for epi := 0; epi < max(4, c.N/150); epi++ {
		half := int64(500)
		now := int64(1_700_000_000_000 + c.Rng.IntN(100000))
		probe, err := rueidisprob.NewSlidingBloomFilter(&fakeClient{srv: newFakeServer(func() int64 { return 0 })}, "bf", 200, 0.01, time.Second)
		if err != nil {
			continue
		}
		m, k, _ := rueidisprob.VerifParams(probe)
		ep.op(c, fmt.Sprintf("reset %d %d %d ro=%d n=200 rate=%s now=%d", m, k, half, epi%2, rateBits(0.01), now))
		pool := make([]item, 12)
		for i := range pool {
			pool[i] = mkItem(fmt.Sprintf("os%d-%d", epi, i))
		}
		ep.op(c, "add "+pool[0].word())
		ep.op(c, "overlap add "+pool[1].word()+" / add "+pool[2].word()+" "+pool[3].word())
		now += 100
		ep.op(c, fmt.Sprintf("now %d", now))
		ep.op(c, "overlap add "+pool[4].word()+" "+pool[5].word()+" / exists "+pool[0].word())
		ep.op(c, "overlap exists "+pool[1].word()+" / add "+pool[6].word())
		now += 350
		ep.op(c, fmt.Sprintf("now %d", now))
		ep.op(c, "overlap add "+pool[7].word()+" / add "+pool[8].word())
		for _, it := range pool {
			if t, ok := ep.lastAdd[it.key]; ok && now <= t+half {
				ep.op(c, "!exists "+it.word())
				ep.op(c, "exists "+it.word())
			}
		}
	}
}
