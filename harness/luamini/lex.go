package luamini

import (
	"fmt"
	"strconv"
	"strings"
)

// ---- lexer (Lua 5.1 lexical conventions)

type tokKind int

const (
	tEOF tokKind = iota
	tName
	tNumber
	tString
	tKeyword
	tOp
)

type token struct {
	kind tokKind
	s    string  // name / keyword / operator text / string value
	n    float64 // number value
	line int
}

func (t token) String() string {
	switch t.kind {
	case tEOF:
		return "<eof>"
	case tNumber:
		return fmtNumber(t.n)
	case tString:
		return strconv.Quote(t.s)
	}
	return t.s
}

var keywords = map[string]bool{
	"and": true, "break": true, "do": true, "else": true, "elseif": true, "end": true, "false": true,
	"for": true, "function": true, "if": true, "in": true, "local": true, "nil": true, "not": true,
	"or": true, "repeat": true, "return": true, "then": true, "true": true, "until": true, "while": true,
}

// SyntaxError is a compile-time failure. Unsupported says the text may be valid Lua that this
// interpreter deliberately refuses.
type SyntaxError struct {
	Line        int
	Msg         string
	Unsupported bool
}

func (e *SyntaxError) Error() string {
	if e.Unsupported {
		return fmt.Sprintf("luamini: unsupported %s (user_script:%d)", e.Msg, e.Line)
	}
	return fmt.Sprintf("luamini: syntax error: user_script:%d: %s", e.Line, e.Msg)
}

type lexer struct {
	src  string
	pos  int
	line int
}

func (lx *lexer) fail(format string, a ...any) {
	panic(&SyntaxError{Line: lx.line, Msg: fmt.Sprintf(format, a...)})
}

func isAlpha(c byte) bool { return c == '_' || (c >= 'a' && c <= 'z') || (c >= 'A' && c <= 'Z') }
func isDigit(c byte) bool { return c >= '0' && c <= '9' }
func isHex(c byte) bool {
	return isDigit(c) || (c >= 'a' && c <= 'f') || (c >= 'A' && c <= 'F')
}

// longBracket: at `[`, returns the level of a long bracket opening (`[[`, `[=[`, …) or -1.
func (lx *lexer) longBracket() int {
	p := lx.pos + 1
	lvl := 0
	for p < len(lx.src) && lx.src[p] == '=' {
		lvl++
		p++
	}
	if p < len(lx.src) && lx.src[p] == '[' {
		return lvl
	}
	return -1
}

func (lx *lexer) readLong(lvl int) string {
	// lx.pos is at the first '['
	start := lx.line
	lx.pos += lvl + 2
	// a first newline is skipped
	if lx.pos < len(lx.src) && (lx.src[lx.pos] == '\n' || lx.src[lx.pos] == '\r') {
		lx.skipNewline()
	}
	closer := "]" + strings.Repeat("=", lvl) + "]"
	var b strings.Builder
	for {
		if lx.pos >= len(lx.src) {
			lx.line = start
			lx.fail("unfinished long string/comment")
		}
		if strings.HasPrefix(lx.src[lx.pos:], closer) {
			lx.pos += len(closer)
			return b.String()
		}
		c := lx.src[lx.pos]
		if c == '\n' || c == '\r' {
			lx.skipNewline()
			b.WriteByte('\n')
			continue
		}
		b.WriteByte(c)
		lx.pos++
	}
}

func (lx *lexer) skipNewline() {
	c := lx.src[lx.pos]
	lx.pos++
	if lx.pos < len(lx.src) && (lx.src[lx.pos] == '\n' || lx.src[lx.pos] == '\r') && lx.src[lx.pos] != c {
		lx.pos++
	}
	lx.line++
}

func (lx *lexer) next() token {
	for lx.pos < len(lx.src) {
		c := lx.src[lx.pos]
		switch {
		case c == '\n' || c == '\r':
			lx.skipNewline()
		case c == ' ' || c == '\t' || c == '\f' || c == '\v':
			lx.pos++
		case c == '-' && strings.HasPrefix(lx.src[lx.pos:], "--"):
			lx.pos += 2
			if lx.pos < len(lx.src) && lx.src[lx.pos] == '[' {
				if lvl := lx.longBracket(); lvl >= 0 {
					lx.readLong(lvl)
					continue
				}
			}
			for lx.pos < len(lx.src) && lx.src[lx.pos] != '\n' && lx.src[lx.pos] != '\r' {
				lx.pos++
			}
		default:
			return lx.scan()
		}
	}
	return token{kind: tEOF, line: lx.line}
}

func (lx *lexer) scan() token {
	c := lx.src[lx.pos]
	line := lx.line
	switch {
	case isAlpha(c):
		st := lx.pos
		for lx.pos < len(lx.src) && (isAlpha(lx.src[lx.pos]) || isDigit(lx.src[lx.pos])) {
			lx.pos++
		}
		w := lx.src[st:lx.pos]
		if keywords[w] {
			return token{kind: tKeyword, s: w, line: line}
		}
		return token{kind: tName, s: w, line: line}
	case isDigit(c) || (c == '.' && lx.pos+1 < len(lx.src) && isDigit(lx.src[lx.pos+1])):
		return lx.number()
	case c == '"' || c == '\'':
		return lx.str(c)
	case c == '[':
		if lvl := lx.longBracket(); lvl >= 0 {
			s := lx.readLong(lvl)
			return token{kind: tString, s: s, line: line}
		}
		lx.pos++
		return token{kind: tOp, s: "[", line: line}
	}
	for _, op := range []string{"...", "..", "==", "~=", "<=", ">="} {
		if strings.HasPrefix(lx.src[lx.pos:], op) {
			lx.pos += len(op)
			return token{kind: tOp, s: op, line: line}
		}
	}
	if strings.IndexByte("+-*/%^#<>=(){}];:,.", c) >= 0 {
		lx.pos++
		return token{kind: tOp, s: string(c), line: line}
	}
	lx.fail("unexpected symbol near %q", string(c))
	panic("unreachable")
}

func (lx *lexer) number() token {
	st := lx.pos
	line := lx.line
	if lx.src[lx.pos] == '0' && lx.pos+1 < len(lx.src) && (lx.src[lx.pos+1] == 'x' || lx.src[lx.pos+1] == 'X') {
		lx.pos += 2
		for lx.pos < len(lx.src) && isHex(lx.src[lx.pos]) {
			lx.pos++
		}
	} else {
		for lx.pos < len(lx.src) && (isDigit(lx.src[lx.pos]) || lx.src[lx.pos] == '.') {
			lx.pos++
		}
		if lx.pos < len(lx.src) && (lx.src[lx.pos] == 'e' || lx.src[lx.pos] == 'E') {
			lx.pos++
			if lx.pos < len(lx.src) && (lx.src[lx.pos] == '+' || lx.src[lx.pos] == '-') {
				lx.pos++
			}
			for lx.pos < len(lx.src) && isDigit(lx.src[lx.pos]) {
				lx.pos++
			}
		}
	}
	// Lua reads on through alphanumerics and then rejects the whole numeral
	for lx.pos < len(lx.src) && (isAlpha(lx.src[lx.pos]) || isDigit(lx.src[lx.pos])) {
		lx.pos++
	}
	text := lx.src[st:lx.pos]
	n, ok := str2number(text)
	if !ok {
		lx.fail("malformed number near %q", text)
	}
	return token{kind: tNumber, n: n, line: line}
}

func (lx *lexer) str(q byte) token {
	line := lx.line
	lx.pos++
	var b strings.Builder
	for {
		if lx.pos >= len(lx.src) {
			lx.fail("unfinished string")
		}
		c := lx.src[lx.pos]
		switch {
		case c == q:
			lx.pos++
			return token{kind: tString, s: b.String(), line: line}
		case c == '\n' || c == '\r':
			lx.fail("unfinished string")
		case c == '\\':
			lx.pos++
			if lx.pos >= len(lx.src) {
				lx.fail("unfinished string")
			}
			e := lx.src[lx.pos]
			switch e {
			case 'a':
				b.WriteByte(7)
			case 'b':
				b.WriteByte(8)
			case 'f':
				b.WriteByte(12)
			case 'n':
				b.WriteByte(10)
			case 'r':
				b.WriteByte(13)
			case 't':
				b.WriteByte(9)
			case 'v':
				b.WriteByte(11)
			case '\n', '\r':
				lx.skipNewline()
				b.WriteByte('\n')
				continue
			default:
				if isDigit(e) {
					v := 0
					i := 0
					for i < 3 && lx.pos < len(lx.src) && isDigit(lx.src[lx.pos]) {
						v = v*10 + int(lx.src[lx.pos]-'0')
						lx.pos++
						i++
					}
					if v > 255 {
						lx.fail("escape sequence too large")
					}
					b.WriteByte(byte(v))
					continue
				}
				// \\ \" \' and any other character stand for themselves
				b.WriteByte(e)
			}
			lx.pos++
		default:
			b.WriteByte(c)
			lx.pos++
		}
	}
}
