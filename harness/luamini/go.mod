module github.com/redis/rueidis/zzverif/luamini

go 1.23
