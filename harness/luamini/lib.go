package luamini

import (
	"crypto/sha1"
	"encoding/hex"
	"fmt"
	"math"
	"sort"
	"strconv"
	"strings"
)

// ---- the library subset: base functions, string, table, math, redis

func gf(name string, fn func(it *Interp, a []Value) []Value) *GoFunc {
	return &GoFunc{Name: name, Fn: fn}
}

func arg(a []Value, i int) Value {
	if i < len(a) {
		return a[i]
	}
	return nil
}

func (it *Interp) argErr(fname string, i int, msg string) {
	it.rtError("bad argument #%d to '%s' (%s)", i+1, fname, msg)
}

func (it *Interp) checkNumber(fname string, a []Value, i int) float64 {
	n, ok := toNumber(arg(a, i))
	if !ok {
		it.argErr(fname, i, "number expected, got "+typeNameOrNone(a, i))
	}
	return n
}

func (it *Interp) optNumber(fname string, a []Value, i int, def float64) float64 {
	if arg(a, i) == nil {
		return def
	}
	return it.checkNumber(fname, a, i)
}

func (it *Interp) checkInt(fname string, a []Value, i int) int {
	return int(truncToInt64(it.checkNumber(fname, a, i)))
}

func (it *Interp) optInt(fname string, a []Value, i int, def int) int {
	if arg(a, i) == nil {
		return def
	}
	return it.checkInt(fname, a, i)
}

func (it *Interp) checkString(fname string, a []Value, i int) string {
	switch x := arg(a, i).(type) {
	case string:
		return x
	case float64:
		return fmtNumber(x)
	}
	it.argErr(fname, i, "string expected, got "+typeNameOrNone(a, i))
	return ""
}

func (it *Interp) checkTable(fname string, a []Value, i int) *Table {
	t, ok := arg(a, i).(*Table)
	if !ok {
		it.argErr(fname, i, "table expected, got "+typeNameOrNone(a, i))
	}
	return t
}

func typeNameOrNone(a []Value, i int) string {
	if i >= len(a) {
		return "no value"
	}
	return typeName(a[i])
}

func libTable(fns ...*GoFunc) *Table {
	t := NewTable()
	for _, f := range fns {
		short := f.Name[strings.LastIndexByte(f.Name, '.')+1:]
		t.Set(short, f)
	}
	return t
}

func (it *Interp) stdlib() map[string]Value {
	g := map[string]Value{}
	refuse := func(name string) *GoFunc {
		return gf(name, func(it *Interp, a []Value) []Value { it.unsupported("function %s", name); return nil })
	}
	// ---- base
	g["tostring"] = gf("tostring", func(it *Interp, a []Value) []Value {
		if len(a) == 0 {
			it.argErr("tostring", 0, "value expected")
		}
		return []Value{toStr(a[0])}
	})
	g["tonumber"] = gf("tonumber", func(it *Interp, a []Value) []Value {
		if len(a) == 0 {
			it.argErr("tonumber", 0, "value expected")
		}
		if arg(a, 1) == nil || it.checkInt("tonumber", a, 1) == 10 {
			if n, ok := toNumber(a[0]); ok {
				return []Value{n}
			}
			return []Value{nil}
		}
		base := it.checkInt("tonumber", a, 1)
		if base < 2 || base > 36 {
			it.argErr("tonumber", 1, "base out of range")
		}
		s := strings.TrimSpace(it.checkString("tonumber", a, 0))
		neg := false
		if strings.HasPrefix(s, "-") {
			neg, s = true, s[1:]
		} else if strings.HasPrefix(s, "+") {
			s = s[1:]
		}
		if base == 16 && (strings.HasPrefix(s, "0x") || strings.HasPrefix(s, "0X")) {
			s = s[2:]
		}
		u, err := strconv.ParseUint(s, base, 64)
		if err != nil || strings.ContainsAny(s, "_+-") {
			if ne, ok := err.(*strconv.NumError); ok && ne.Err == strconv.ErrRange {
				it.unsupported("tonumber(s, base) beyond 64 bits")
			}
			return []Value{nil}
		}
		f := float64(u)
		if neg {
			// strtoul negates in unsigned arithmetic
			f = float64(-u)
		}
		return []Value{f}
	})
	g["type"] = gf("type", func(it *Interp, a []Value) []Value {
		if len(a) == 0 {
			it.argErr("type", 0, "value expected")
		}
		return []Value{typeName(a[0])}
	})
	g["select"] = gf("select", func(it *Interp, a []Value) []Value {
		if s, ok := arg(a, 0).(string); ok && s == "#" {
			return []Value{float64(len(a) - 1)}
		}
		n := it.checkInt("select", a, 0)
		if n < 0 {
			n = len(a) + n
		} else if n > len(a)-1 {
			n = len(a)
		}
		if n < 1 {
			it.argErr("select", 0, "index out of range")
		}
		return append([]Value{}, a[n:]...)
	})
	next := gf("next", func(it *Interp, a []Value) []Value {
		t := it.checkTable("next", a, 0)
		k, v, ok := t.Next(arg(a, 1))
		if !ok {
			it.rtError("invalid key to 'next'")
		}
		if k == nil {
			return []Value{nil}
		}
		return []Value{k, v}
	})
	g["next"] = next
	g["pairs"] = gf("pairs", func(it *Interp, a []Value) []Value {
		t := it.checkTable("pairs", a, 0)
		return []Value{next, t, nil}
	})
	ipairsIter := gf("ipairs_iter", func(it *Interp, a []Value) []Value {
		t := it.checkTable("ipairs", a, 0)
		i := it.checkNumber("ipairs", a, 1) + 1
		v := t.Get(i)
		if v == nil {
			return []Value{nil}
		}
		return []Value{i, v}
	})
	g["ipairs"] = gf("ipairs", func(it *Interp, a []Value) []Value {
		t := it.checkTable("ipairs", a, 0)
		return []Value{ipairsIter, t, 0.0}
	})
	unpack := gf("unpack", func(it *Interp, a []Value) []Value {
		t := it.checkTable("unpack", a, 0)
		i := it.optInt("unpack", a, 1, 1)
		var j int
		if arg(a, 2) == nil {
			j = it.tableLen(t)
		} else {
			j = it.checkInt("unpack", a, 2)
		}
		if j-i >= 8000 { // LUAI_MAXCSTACK
			it.rtError("too many results to unpack")
		}
		out := []Value{}
		for k := i; k <= j; k++ {
			out = append(out, t.Get(float64(k)))
		}
		return out
	})
	g["unpack"] = unpack
	g["error"] = gf("error", func(it *Interp, a []Value) []Value {
		v := arg(a, 0)
		if s, ok := v.(string); ok && it.optInt("error", a, 1, 1) > 0 {
			v = fmt.Sprintf("user_script:%d: %s", it.line, s)
		}
		panic(&LuaError{Value: v})
	})
	g["assert"] = gf("assert", func(it *Interp, a []Value) []Value {
		if len(a) == 0 {
			it.argErr("assert", 0, "value expected")
		}
		if !truthy(a[0]) {
			msg := "assertion failed!"
			if len(a) > 1 {
				msg = toStr(a[1])
			}
			panic(&LuaError{Value: msg})
		}
		return a
	})
	g["pcall"] = gf("pcall", func(it *Interp, a []Value) (out []Value) {
		if len(a) == 0 {
			it.argErr("pcall", 0, "value expected")
		}
		depth, line := it.depth, it.line
		defer func() {
			if r := recover(); r != nil {
				le, ok := r.(*LuaError)
				if !ok || le.Unsupported {
					panic(r) // a refusal of the interpreter is never swallowed by the script
				}
				it.depth, it.line = depth, line
				out = []Value{false, le.Value}
			}
		}()
		return append([]Value{true}, it.callValue(a[0], a[1:], "")...)
	})

	// ---- string
	str := libTable(
		gf("string.len", func(it *Interp, a []Value) []Value {
			return []Value{float64(len(it.checkString("len", a, 0)))}
		}),
		gf("string.sub", func(it *Interp, a []Value) []Value {
			s := it.checkString("sub", a, 0)
			i, j := strRange(len(s), it.checkInt("sub", a, 1), it.optInt("sub", a, 2, -1))
			if i > j {
				return []Value{""}
			}
			return []Value{s[i-1 : j]}
		}),
		gf("string.rep", func(it *Interp, a []Value) []Value {
			s := it.checkString("rep", a, 0)
			n := it.checkInt("rep", a, 1)
			if n <= 0 {
				return []Value{""}
			}
			if len(s)*n > 64<<20 {
				it.rtError("not enough memory")
			}
			return []Value{strings.Repeat(s, n)}
		}),
		gf("string.byte", func(it *Interp, a []Value) []Value {
			s := it.checkString("byte", a, 0)
			i0 := it.optInt("byte", a, 1, 1)
			i, j := strRange(len(s), i0, it.optInt("byte", a, 2, i0))
			if i0 < 0 && arg(a, 2) == nil {
				// the default of j is the (normalised) i
				i, j = strRange(len(s), i0, i0)
			}
			out := []Value{}
			for k := i; k <= j; k++ {
				out = append(out, float64(s[k-1]))
			}
			return out
		}),
		gf("string.char", func(it *Interp, a []Value) []Value {
			b := make([]byte, len(a))
			for i := range a {
				c := it.checkInt("char", a, i)
				if c < 0 || c > 255 {
					it.argErr("char", i, "invalid value")
				}
				b[i] = byte(c)
			}
			return []Value{string(b)}
		}),
		gf("string.lower", func(it *Interp, a []Value) []Value {
			return []Value{asciiMap(it.checkString("lower", a, 0), 'A', 'Z', 32)}
		}),
		gf("string.upper", func(it *Interp, a []Value) []Value {
			return []Value{asciiMap(it.checkString("upper", a, 0), 'a', 'z', -32)}
		}),
		gf("string.reverse", func(it *Interp, a []Value) []Value {
			b := []byte(it.checkString("reverse", a, 0))
			for i, j := 0, len(b)-1; i < j; i, j = i+1, j-1 {
				b[i], b[j] = b[j], b[i]
			}
			return []Value{string(b)}
		}),
		gf("string.format", func(it *Interp, a []Value) []Value { return []Value{it.format(a)} }),
		gf("string.find", func(it *Interp, a []Value) []Value {
			s := it.checkString("find", a, 0)
			pat := it.checkString("find", a, 1)
			init := it.optInt("find", a, 2, 1)
			plain := truthy(arg(a, 3))
			if !plain && strings.ContainsAny(pat, "^$*+?.([%-") {
				it.unsupported("Lua patterns (string.find with magic characters)")
			}
			if init < 0 {
				init = len(s) + init + 1
			}
			if init < 1 {
				init = 1
			}
			if init > len(s)+1 {
				return []Value{nil}
			}
			k := strings.Index(s[init-1:], pat)
			if k < 0 {
				return []Value{nil}
			}
			return []Value{float64(init + k), float64(init + k + len(pat) - 1)}
		}),
		refuse("string.match"), refuse("string.gmatch"), refuse("string.gsub"), refuse("string.gfind"), refuse("string.dump"),
	)
	it.strLib = str
	g["string"] = str

	// ---- table
	g["table"] = libTable(
		gf("table.insert", func(it *Interp, a []Value) []Value {
			t := it.checkTable("insert", a, 0)
			n := it.tableLen(t)
			switch len(a) {
			case 2:
				t.Set(float64(n+1), a[1])
			case 3:
				p := it.checkInt("insert", a, 1)
				if p > n+1 {
					// lua 5.1 stores at p without shifting: creates a hole
					if a[2] != nil {
						t.Set(float64(p), a[2])
					}
					return nil
				}
				if a[2] == nil && p >= 1 && p <= n {
					it.unsupported("table.insert of nil inside a sequence")
				}
				if p < 1 {
					it.unsupported("table.insert at a position below 1")
				}
				for i := n; i >= p; i-- {
					t.Set(float64(i+1), t.Get(float64(i)))
				}
				t.Set(float64(p), a[2])
			default:
				it.rtError("wrong number of arguments to 'insert'")
			}
			return nil
		}),
		gf("table.remove", func(it *Interp, a []Value) []Value {
			t := it.checkTable("remove", a, 0)
			n := it.tableLen(t)
			p := it.optInt("remove", a, 1, n)
			if !(1 <= p && p <= n) {
				return []Value{nil}
			}
			v := t.Get(float64(p))
			for i := p; i < n; i++ {
				t.arr[i-1] = t.arr[i]
			}
			t.Set(float64(n), nil)
			return []Value{v}
		}),
		gf("table.getn", func(it *Interp, a []Value) []Value {
			return []Value{float64(it.tableLen(it.checkTable("getn", a, 0)))}
		}),
		gf("table.maxn", func(it *Interp, a []Value) []Value {
			t := it.checkTable("maxn", a, 0)
			m := float64(len(t.arr))
			for k := range t.hash {
				if f, ok := k.(float64); ok && f > m {
					m = f
				}
			}
			return []Value{m}
		}),
		gf("table.concat", func(it *Interp, a []Value) []Value {
			t := it.checkTable("concat", a, 0)
			sep := ""
			if arg(a, 1) != nil {
				sep = it.checkString("concat", a, 1)
			}
			i := it.optInt("concat", a, 2, 1)
			var j int
			if arg(a, 3) == nil {
				j = it.tableLen(t)
			} else {
				j = it.checkInt("concat", a, 3)
			}
			var b strings.Builder
			for k := i; k <= j; k++ {
				s, ok := concatStr(t.Get(float64(k)))
				if !ok {
					it.rtError("invalid value (at index %d) in table for 'concat'", k)
				}
				b.WriteString(s)
				if k < j {
					b.WriteString(sep)
				}
			}
			return []Value{b.String()}
		}),
		gf("table.sort", func(it *Interp, a []Value) []Value {
			t := it.checkTable("sort", a, 0)
			it.tableLen(t)
			cmp := arg(a, 1)
			less := func(x, y Value) bool {
				if cmp != nil {
					r := it.callValue(cmp, []Value{x, y}, "comparison function")
					return len(r) > 0 && truthy(r[0])
				}
				return it.less(x, y)
			}
			// elements that compare equal may end up in a different order than with Lua's quicksort:
			// only a difference for a script that tells equal elements apart
			sort.SliceStable(t.arr, func(i, j int) bool { return less(t.arr[i], t.arr[j]) })
			return nil
		}),
	)

	// ---- math
	m := libTable(
		gf("math.floor", func(it *Interp, a []Value) []Value { return []Value{math.Floor(it.checkNumber("floor", a, 0))} }),
		gf("math.ceil", func(it *Interp, a []Value) []Value { return []Value{math.Ceil(it.checkNumber("ceil", a, 0))} }),
		gf("math.abs", func(it *Interp, a []Value) []Value { return []Value{math.Abs(it.checkNumber("abs", a, 0))} }),
		gf("math.sqrt", func(it *Interp, a []Value) []Value { return []Value{math.Sqrt(it.checkNumber("sqrt", a, 0))} }),
		gf("math.pow", func(it *Interp, a []Value) []Value {
			return []Value{math.Pow(it.checkNumber("pow", a, 0), it.checkNumber("pow", a, 1))}
		}),
		gf("math.fmod", func(it *Interp, a []Value) []Value {
			return []Value{math.Mod(it.checkNumber("fmod", a, 0), it.checkNumber("fmod", a, 1))}
		}),
		gf("math.exp", func(it *Interp, a []Value) []Value { return []Value{math.Exp(it.checkNumber("exp", a, 0))} }),
		gf("math.log", func(it *Interp, a []Value) []Value { return []Value{math.Log(it.checkNumber("log", a, 0))} }),
		gf("math.log10", func(it *Interp, a []Value) []Value { return []Value{math.Log10(it.checkNumber("log10", a, 0))} }),
		gf("math.modf", func(it *Interp, a []Value) []Value {
			x := it.checkNumber("modf", a, 0)
			if math.IsInf(x, 0) {
				return []Value{x, 0.0}
			}
			ip, fp := math.Modf(x)
			return []Value{ip, fp}
		}),
		gf("math.max", func(it *Interp, a []Value) []Value {
			r := it.checkNumber("max", a, 0)
			for i := 1; i < len(a); i++ {
				if d := it.checkNumber("max", a, i); d > r {
					r = d
				}
			}
			return []Value{r}
		}),
		gf("math.min", func(it *Interp, a []Value) []Value {
			r := it.checkNumber("min", a, 0)
			for i := 1; i < len(a); i++ {
				if d := it.checkNumber("min", a, i); d < r {
					r = d
				}
			}
			return []Value{r}
		}),
		refuse("math.random"), refuse("math.randomseed"), refuse("math.frexp"), refuse("math.ldexp"),
	)
	m.Set("huge", math.Inf(1))
	m.Set("pi", math.Pi)
	g["math"] = m

	// ---- redis
	rd := libTable(
		gf("redis.call", func(it *Interp, a []Value) []Value { return it.redisCall("redis.call", true, a) }),
		gf("redis.pcall", func(it *Interp, a []Value) []Value { return it.redisCall("redis.pcall", false, a) }),
		gf("redis.error_reply", func(it *Interp, a []Value) []Value {
			s, ok := arg(a, 0).(string)
			if len(a) != 1 || !ok {
				return []Value{errTable("wrong number or type of arguments")}
			}
			// Redis 7 (luaPushErrorBuff): a message of a single word gets the generic code "ERR",
			// otherwise its first word is taken as the error code
			s = strings.TrimPrefix(s, "-")
			if !strings.Contains(s, " ") {
				s = "ERR " + s
			}
			return []Value{errTable(s)}
		}),
		gf("redis.status_reply", func(it *Interp, a []Value) []Value {
			s, ok := arg(a, 0).(string)
			if len(a) != 1 || !ok {
				return []Value{errTable("wrong number or type of arguments")}
			}
			t := NewTable()
			t.Set("ok", s)
			return []Value{t}
		}),
		gf("redis.sha1hex", func(it *Interp, a []Value) []Value {
			if len(a) != 1 {
				it.rtError("wrong number of arguments")
			}
			sum := sha1.Sum([]byte(it.checkString("sha1hex", a, 0)))
			return []Value{hex.EncodeToString(sum[:])}
		}),
		gf("redis.log", func(it *Interp, a []Value) []Value { return nil }),
		gf("redis.replicate_commands", func(it *Interp, a []Value) []Value { return []Value{true} }),
		refuse("redis.setresp"), refuse("redis.set_repl"), refuse("redis.breakpoint"), refuse("redis.debug"),
		refuse("redis.acl_check_cmd"), refuse("redis.register_function"),
	)
	for i, lv := range []string{"LOG_DEBUG", "LOG_VERBOSE", "LOG_NOTICE", "LOG_WARNING"} {
		rd.Set(lv, float64(i))
	}
	g["redis"] = rd
	return g
}

func isUpperWord(s string) bool {
	if s == "" {
		return false
	}
	for i := 0; i < len(s); i++ {
		if !(s[i] >= 'A' && s[i] <= 'Z') {
			return false
		}
	}
	return true
}

func errTable(s string) *Table {
	t := NewTable()
	t.Set("err", s)
	return t
}

func asciiMap(s string, lo, hi byte, delta int) string {
	b := []byte(s)
	for i, c := range b {
		if c >= lo && c <= hi {
			b[i] = byte(int(c) + delta)
		}
	}
	return string(b)
}

// strRange normalises (i, j) of string.sub / string.byte to 1 <= i, j <= n (i > j: empty)
func strRange(n, i, j int) (int, int) {
	if i < 0 {
		i = n + i + 1
	}
	if i < 1 {
		i = 1
	}
	if j < 0 {
		j = n + j + 1
	}
	if j > n {
		j = n
	}
	return i, j
}

// format implements string.format for the conversions d i u c x X o e E f g G s q %.
func (it *Interp) format(a []Value) string {
	f := it.checkString("format", a, 0)
	var b strings.Builder
	argi := 0
	for i := 0; i < len(f); i++ {
		c := f[i]
		if c != '%' {
			b.WriteByte(c)
			continue
		}
		i++
		if i >= len(f) {
			it.rtError("invalid option '%%' to 'format'")
		}
		if f[i] == '%' {
			b.WriteByte('%')
			continue
		}
		st := i
		for i < len(f) && strings.IndexByte("-+ #0", f[i]) >= 0 {
			i++
		}
		for i < len(f) && isDigit(f[i]) {
			i++
		}
		if i < len(f) && f[i] == '.' {
			i++
			for i < len(f) && isDigit(f[i]) {
				i++
			}
		}
		if i >= len(f) || i-st > 12 {
			it.rtError("invalid format (width or precision too long)")
		}
		spec := "%" + f[st:i]
		conv := f[i]
		argi++
		switch conv {
		case 'd', 'i':
			b.WriteString(fmt.Sprintf(spec+"d", truncToInt64(it.checkNumber("format", a, argi))))
		case 'u':
			b.WriteString(fmt.Sprintf(spec+"d", uint64(truncToInt64(it.checkNumber("format", a, argi)))))
		case 'c':
			b.WriteByte(byte(it.checkInt("format", a, argi)))
		case 'x', 'X', 'o':
			b.WriteString(fmt.Sprintf(spec+string(conv), uint64(truncToInt64(it.checkNumber("format", a, argi)))))
		case 'e', 'E', 'f', 'g', 'G':
			n := it.checkNumber("format", a, argi)
			if n != n || math.IsInf(n, 0) {
				s := fmtNumber(n)
				if conv == 'E' || conv == 'G' {
					s = strings.ToUpper(s)
				}
				b.WriteString(s)
			} else {
				b.WriteString(fmt.Sprintf(spec+string(conv), n))
			}
		case 's':
			b.WriteString(fmt.Sprintf(spec+"s", it.checkString("format", a, argi)))
		case 'q':
			s := it.checkString("format", a, argi)
			b.WriteByte('"')
			for k := 0; k < len(s); k++ {
				switch s[k] {
				case '"', '\\', '\n':
					b.WriteByte('\\')
					b.WriteByte(s[k])
				case '\r':
					b.WriteString("\\r")
				case 0:
					b.WriteString("\\000")
				default:
					b.WriteByte(s[k])
				}
			}
			b.WriteByte('"')
		default:
			it.rtError("invalid option '%%%c' to 'format'", conv)
		}
	}
	return b.String()
}
