package luamini

import "fmt"

// ---- AST

type expr interface{ exprLine() int }
type stmt interface{ stmtLine() int }

type pos struct{ line int }

func (p pos) exprLine() int { return p.line }
func (p pos) stmtLine() int { return p.line }

type (
	nilExpr    struct{ pos }
	trueExpr   struct{ pos }
	falseExpr  struct{ pos }
	varargExpr struct{ pos }
	numExpr    struct {
		pos
		n float64
	}
	strExpr struct {
		pos
		s string
	}
	nameExpr struct {
		pos
		name string
	}
	indexExpr struct {
		pos
		obj, key expr
	}
	callExpr struct {
		pos
		fn     expr
		method string // obj:method(args) when non-empty
		args   []expr
	}
	funcExpr struct {
		pos
		name     string
		params   []string
		isVararg bool
		body     []stmt
	}
	binExpr struct {
		pos
		op   string
		l, r expr
	}
	unExpr struct {
		pos
		op string
		x  expr
	}
	parenExpr struct {
		pos
		x expr
	}
	tableField struct {
		key expr // nil: positional
		val expr
	}
	tableExpr struct {
		pos
		fields []tableField
	}
)

type (
	localStmt struct {
		pos
		names []string
		exprs []expr
	}
	localFuncStmt struct {
		pos
		name string
		fn   *funcExpr
	}
	assignStmt struct {
		pos
		targets []expr
		exprs   []expr
	}
	callStmt struct {
		pos
		call *callExpr
	}
	doStmt struct {
		pos
		body []stmt
	}
	whileStmt struct {
		pos
		cond expr
		body []stmt
	}
	repeatStmt struct {
		pos
		body []stmt
		cond expr
	}
	ifStmt struct {
		pos
		conds  []expr
		blocks [][]stmt
		els    []stmt // nil: no else
		hasEls bool
	}
	numForStmt struct {
		pos
		name             string
		start, end, step expr
		body             []stmt
	}
	genForStmt struct {
		pos
		names []string
		exprs []expr
		body  []stmt
	}
	returnStmt struct {
		pos
		exprs []expr
	}
	breakStmt struct{ pos }
)

// ---- recursive-descent parser (grammar of the Lua 5.1 reference manual §8)

type parser struct {
	lx   *lexer
	tok  token
	peek *token
}

func (p *parser) fail(format string, a ...any) {
	panic(&SyntaxError{Line: p.tok.line, Msg: fmt.Sprintf(format, a...) + " near " + p.tok.String()})
}

func (p *parser) advance() {
	if p.peek != nil {
		p.tok = *p.peek
		p.peek = nil
		return
	}
	p.tok = p.lx.next()
}

func (p *parser) lookahead() token {
	if p.peek == nil {
		t := p.lx.next()
		p.peek = &t
	}
	return *p.peek
}

func (p *parser) isOp(s string) bool { return p.tok.kind == tOp && p.tok.s == s }
func (p *parser) isKw(s string) bool { return p.tok.kind == tKeyword && p.tok.s == s }

func (p *parser) acceptOp(s string) bool {
	if p.isOp(s) {
		p.advance()
		return true
	}
	return false
}

func (p *parser) acceptKw(s string) bool {
	if p.isKw(s) {
		p.advance()
		return true
	}
	return false
}

func (p *parser) expectOp(s string) {
	if !p.acceptOp(s) {
		p.fail("'%s' expected", s)
	}
}

func (p *parser) expectKw(s string) {
	if !p.acceptKw(s) {
		p.fail("'%s' expected", s)
	}
}

func (p *parser) expectName() string {
	if p.tok.kind != tName {
		p.fail("<name> expected")
	}
	s := p.tok.s
	p.advance()
	return s
}

func (p *parser) blockEnd() bool {
	if p.tok.kind == tEOF {
		return true
	}
	if p.tok.kind == tKeyword {
		switch p.tok.s {
		case "end", "else", "elseif", "until":
			return true
		}
	}
	return false
}

func (p *parser) block() []stmt {
	out := []stmt{}
	for !p.blockEnd() {
		if p.isKw("return") {
			line := p.tok.line
			p.advance()
			var es []expr
			if !p.blockEnd() && !p.isOp(";") {
				es = p.exprList()
			}
			p.acceptOp(";")
			out = append(out, &returnStmt{pos{line}, es})
			if !p.blockEnd() {
				p.fail("'<eof>' or block end expected after return")
			}
			return out
		}
		if p.isKw("break") {
			line := p.tok.line
			p.advance()
			p.acceptOp(";")
			out = append(out, &breakStmt{pos{line}})
			if !p.blockEnd() {
				p.fail("block end expected after break")
			}
			return out
		}
		out = append(out, p.statement())
		p.acceptOp(";")
	}
	return out
}

func (p *parser) statement() stmt {
	line := p.tok.line
	if p.tok.kind == tKeyword {
		switch p.tok.s {
		case "if":
			p.advance()
			st := &ifStmt{pos: pos{line}}
			st.conds = append(st.conds, p.expr())
			p.expectKw("then")
			st.blocks = append(st.blocks, p.block())
			for {
				if p.acceptKw("elseif") {
					st.conds = append(st.conds, p.expr())
					p.expectKw("then")
					st.blocks = append(st.blocks, p.block())
					continue
				}
				if p.acceptKw("else") {
					st.els = p.block()
					st.hasEls = true
				}
				p.expectKw("end")
				return st
			}
		case "while":
			p.advance()
			c := p.expr()
			p.expectKw("do")
			b := p.block()
			p.expectKw("end")
			return &whileStmt{pos{line}, c, b}
		case "do":
			p.advance()
			b := p.block()
			p.expectKw("end")
			return &doStmt{pos{line}, b}
		case "repeat":
			p.advance()
			b := p.block()
			p.expectKw("until")
			c := p.expr()
			return &repeatStmt{pos{line}, b, c}
		case "for":
			p.advance()
			n1 := p.expectName()
			if p.acceptOp("=") {
				st := &numForStmt{pos: pos{line}, name: n1}
				st.start = p.expr()
				p.expectOp(",")
				st.end = p.expr()
				if p.acceptOp(",") {
					st.step = p.expr()
				}
				p.expectKw("do")
				st.body = p.block()
				p.expectKw("end")
				return st
			}
			names := []string{n1}
			for p.acceptOp(",") {
				names = append(names, p.expectName())
			}
			p.expectKw("in")
			es := p.exprList()
			p.expectKw("do")
			b := p.block()
			p.expectKw("end")
			return &genForStmt{pos{line}, names, es, b}
		case "function":
			p.advance()
			// funcname: Name {'.' Name} [':' Name]
			nameLine := p.tok.line
			full := p.expectName()
			var target expr = &nameExpr{pos{nameLine}, full}
			method := false
			for p.isOp(".") || p.isOp(":") {
				colon := p.isOp(":")
				p.advance()
				k := p.expectName()
				full += "." + k
				target = &indexExpr{pos{nameLine}, target, &strExpr{pos{nameLine}, k}}
				if colon {
					method = true
					break
				}
			}
			fn := p.funcBody(line, full)
			if method {
				fn.params = append([]string{"self"}, fn.params...)
			}
			return &assignStmt{pos{line}, []expr{target}, []expr{fn}}
		case "local":
			p.advance()
			if p.acceptKw("function") {
				name := p.expectName()
				fn := p.funcBody(line, name)
				return &localFuncStmt{pos{line}, name, fn}
			}
			names := []string{p.expectName()}
			for p.acceptOp(",") {
				names = append(names, p.expectName())
			}
			var es []expr
			if p.acceptOp("=") {
				es = p.exprList()
			}
			return &localStmt{pos{line}, names, es}
		}
		p.fail("unexpected symbol")
	}
	// exprstat: call or assignment
	e := p.suffixedExpr()
	if p.isOp("=") || p.isOp(",") {
		targets := []expr{e}
		for p.acceptOp(",") {
			targets = append(targets, p.suffixedExpr())
		}
		p.expectOp("=")
		es := p.exprList()
		for _, t := range targets {
			switch t.(type) {
			case *nameExpr, *indexExpr:
			default:
				panic(&SyntaxError{Line: line, Msg: "syntax error: cannot assign to this expression"})
			}
		}
		return &assignStmt{pos{line}, targets, es}
	}
	c, ok := e.(*callExpr)
	if !ok {
		p.fail("syntax error: expression is not a statement")
	}
	return &callStmt{pos{line}, c}
}

func (p *parser) funcBody(line int, name string) *funcExpr {
	fn := &funcExpr{pos: pos{line}, name: name}
	p.expectOp("(")
	if !p.isOp(")") {
		for {
			if p.acceptOp("...") {
				fn.isVararg = true
				break
			}
			fn.params = append(fn.params, p.expectName())
			if !p.acceptOp(",") {
				break
			}
		}
	}
	p.expectOp(")")
	fn.body = p.block()
	p.expectKw("end")
	checkBreaks(fn.body, false)
	return fn
}

func (p *parser) exprList() []expr {
	es := []expr{p.expr()}
	for p.acceptOp(",") {
		es = append(es, p.expr())
	}
	return es
}

func (p *parser) primaryExpr() expr {
	line := p.tok.line
	switch {
	case p.tok.kind == tName:
		n := p.tok.s
		p.advance()
		return &nameExpr{pos{line}, n}
	case p.isOp("("):
		p.advance()
		e := p.expr()
		p.expectOp(")")
		return &parenExpr{pos{line}, e}
	}
	p.fail("unexpected symbol")
	return nil
}

func (p *parser) suffixedExpr() expr {
	e := p.primaryExpr()
	for {
		line := p.tok.line
		switch {
		case p.isOp("."):
			p.advance()
			k := p.expectName()
			e = &indexExpr{pos{line}, e, &strExpr{pos{line}, k}}
		case p.isOp("["):
			p.advance()
			k := p.expr()
			p.expectOp("]")
			e = &indexExpr{pos{line}, e, k}
		case p.isOp(":"):
			p.advance()
			m := p.expectName()
			args := p.callArgs()
			e = &callExpr{pos{line}, e, m, args}
		case p.isOp("(") || p.isOp("{") || p.tok.kind == tString:
			args := p.callArgs()
			e = &callExpr{pos{line}, e, "", args}
		default:
			return e
		}
	}
}

func (p *parser) callArgs() []expr {
	line := p.tok.line
	switch {
	case p.tok.kind == tString:
		s := p.tok.s
		p.advance()
		return []expr{&strExpr{pos{line}, s}}
	case p.isOp("{"):
		return []expr{p.tableCons()}
	case p.isOp("("):
		p.advance()
		if p.acceptOp(")") {
			return nil
		}
		es := p.exprList()
		p.expectOp(")")
		return es
	}
	p.fail("function arguments expected")
	return nil
}

func (p *parser) tableCons() expr {
	line := p.tok.line
	p.expectOp("{")
	t := &tableExpr{pos: pos{line}}
	for !p.isOp("}") {
		switch {
		case p.isOp("["):
			p.advance()
			k := p.expr()
			p.expectOp("]")
			p.expectOp("=")
			t.fields = append(t.fields, tableField{k, p.expr()})
		case p.tok.kind == tName && func() bool { la := p.lookahead(); return la.kind == tOp && la.s == "=" }():
			k := &strExpr{pos{p.tok.line}, p.tok.s}
			p.advance()
			p.advance()
			t.fields = append(t.fields, tableField{k, p.expr()})
		default:
			t.fields = append(t.fields, tableField{nil, p.expr()})
		}
		if !p.acceptOp(",") && !p.acceptOp(";") {
			break
		}
	}
	p.expectOp("}")
	return t
}

func (p *parser) simpleExpr() expr {
	line := p.tok.line
	switch p.tok.kind {
	case tNumber:
		n := p.tok.n
		p.advance()
		return &numExpr{pos{line}, n}
	case tString:
		s := p.tok.s
		p.advance()
		return &strExpr{pos{line}, s}
	case tKeyword:
		switch p.tok.s {
		case "nil":
			p.advance()
			return &nilExpr{pos{line}}
		case "true":
			p.advance()
			return &trueExpr{pos{line}}
		case "false":
			p.advance()
			return &falseExpr{pos{line}}
		case "function":
			p.advance()
			return p.funcBody(line, "anonymous")
		}
	case tOp:
		switch p.tok.s {
		case "...":
			p.advance()
			return &varargExpr{pos{line}}
		case "{":
			return p.tableCons()
		}
	}
	return p.suffixedExpr()
}

// operator priorities of lparser.c: {left, right}
var binPri = map[string][2]int{
	"+": {6, 6}, "-": {6, 6}, "*": {7, 7}, "/": {7, 7}, "%": {7, 7},
	"^": {10, 9}, "..": {5, 4},
	"==": {3, 3}, "~=": {3, 3}, "<": {3, 3}, "<=": {3, 3}, ">": {3, 3}, ">=": {3, 3},
	"and": {2, 2}, "or": {1, 1},
}

const unaryPri = 8

func (p *parser) binOp() (string, bool) {
	if p.tok.kind == tOp {
		if _, ok := binPri[p.tok.s]; ok {
			return p.tok.s, true
		}
	}
	if p.tok.kind == tKeyword && (p.tok.s == "and" || p.tok.s == "or") {
		return p.tok.s, true
	}
	return "", false
}

func (p *parser) subExpr(limit int) expr {
	var e expr
	line := p.tok.line
	if p.isKw("not") || p.isOp("-") || p.isOp("#") {
		op := p.tok.s
		p.advance()
		x := p.subExpr(unaryPri)
		e = &unExpr{pos{line}, op, x}
	} else {
		e = p.simpleExpr()
	}
	for {
		op, ok := p.binOp()
		if !ok || binPri[op][0] <= limit {
			return e
		}
		l := p.tok.line
		p.advance()
		r := p.subExpr(binPri[op][1])
		e = &binExpr{pos{l}, op, e, r}
	}
}

func (p *parser) expr() expr { return p.subExpr(0) }

// Program is a compiled script.
type Program struct {
	body []stmt
}

// Compile parses a script. The error is a *SyntaxError.
func Compile(src string) (prog *Program, err error) {
	defer func() {
		if r := recover(); r != nil {
			if se, ok := r.(*SyntaxError); ok {
				prog, err = nil, se
				return
			}
			panic(r)
		}
	}()
	if len(src) > 1 && src[0] == '#' && src[1] == '!' {
		return nil, &SyntaxError{Line: 1, Msg: "shebang line (#!lua flags=…)", Unsupported: true}
	}
	p := &parser{lx: &lexer{src: src, line: 1}}
	p.advance()
	body := p.block()
	if p.tok.kind != tEOF {
		p.fail("'<eof>' expected")
	}
	checkBreaks(body, false)
	return &Program{body: body}, nil
}

// checkBreaks rejects a break outside a loop at compile time, like luac.
func checkBreaks(body []stmt, inLoop bool) {
	for _, s := range body {
		switch x := s.(type) {
		case *breakStmt:
			if !inLoop {
				panic(&SyntaxError{Line: x.line, Msg: "no loop to break"})
			}
		case *doStmt:
			checkBreaks(x.body, inLoop)
		case *ifStmt:
			for _, b := range x.blocks {
				checkBreaks(b, inLoop)
			}
			checkBreaks(x.els, inLoop)
		case *whileStmt:
			checkBreaks(x.body, true)
		case *repeatStmt:
			checkBreaks(x.body, true)
		case *numForStmt:
			checkBreaks(x.body, true)
		case *genForStmt:
			checkBreaks(x.body, true)
		}
	}
}
