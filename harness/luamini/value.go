package luamini

import (
	"fmt"
	"math"
	"strconv"
	"strings"
)

// Value is a Lua value: nil, bool, float64 (every Lua 5.1 number is a double), string,
// *Table, *Closure (Lua function) or *GoFunc (library function).
type Value interface{}

// Table is a Lua table. arr holds t[1..len(arr)] (all non-nil); every other key lives in hash.
// order remembers the insertion order of hash keys so that pairs() is deterministic.
type Table struct {
	arr     []Value
	hash    map[interface{}]Value
	order   []interface{}
	intKeys int // number of positive-integer keys in hash (= the table has holes / is sparse)
}

func NewTable() *Table { return &Table{} }

// arrayIndex: k is a float key that denotes a positive integer
func arrayIndex(k Value) (int, bool) {
	f, ok := k.(float64)
	if !ok || f < 1 || f != math.Floor(f) || f > 1<<40 {
		return 0, false
	}
	return int(f), true
}

func (t *Table) Get(k Value) Value {
	if i, ok := arrayIndex(k); ok {
		if i <= len(t.arr) {
			return t.arr[i-1]
		}
	}
	if t.hash == nil || k == nil {
		return nil
	}
	if f, ok := k.(float64); ok && f != f {
		return nil
	}
	return t.hash[k]
}

func (t *Table) GetStr(k string) Value { return t.Get(k) }

func (t *Table) hashSet(k, v Value) {
	_, isInt := arrayIndex(k)
	if v == nil {
		if t.hash != nil {
			if _, had := t.hash[k]; had {
				delete(t.hash, k)
				if isInt {
					t.intKeys--
				}
			}
		}
		return
	}
	if t.hash == nil {
		t.hash = map[interface{}]Value{}
	}
	if _, had := t.hash[k]; !had {
		t.order = append(t.order, k)
		if isInt {
			t.intKeys++
		}
		if len(t.order) > 2*len(t.hash)+16 {
			t.compact()
		}
	}
	t.hash[k] = v
}

func (t *Table) compact() {
	seen := map[interface{}]bool{}
	out := t.order[:0]
	for _, k := range t.order {
		if _, ok := t.hash[k]; ok && !seen[k] {
			seen[k] = true
			out = append(out, k)
		}
	}
	t.order = out
}

// Set assigns t[k] = v (raw). The caller has rejected nil and NaN keys.
func (t *Table) Set(k, v Value) {
	if i, ok := arrayIndex(k); ok {
		switch {
		case i <= len(t.arr):
			if v != nil {
				t.arr[i-1] = v
				return
			}
			// a hole: everything above i moves to the hash part
			tail := append([]Value{}, t.arr[i:]...)
			t.arr = t.arr[:i-1]
			for j, x := range tail {
				t.hashSet(float64(i+1+j), x)
			}
			return
		case i == len(t.arr)+1 && v != nil:
			t.hashSet(k, nil)
			t.arr = append(t.arr, v)
			// pull followers out of the hash part
			for t.intKeys > 0 {
				nk := float64(len(t.arr) + 1)
				x, ok := t.hash[nk]
				if !ok {
					break
				}
				t.hashSet(nk, nil)
				t.arr = append(t.arr, x)
			}
			return
		}
	}
	t.hashSet(k, v)
}

// Len is the border t.arr ends at; ok=false when the table also has positive integer keys
// beyond it (a table with holes: Lua 5.1 may answer any border, luamini refuses).
func (t *Table) Len() (int, bool) {
	return len(t.arr), t.intKeys == 0
}

// Next implements next(t, k): array part in order, then hash keys in insertion order.
func (t *Table) Next(k Value) (Value, Value, bool) {
	start := 0
	if k != nil {
		if i, ok := arrayIndex(k); ok && i <= len(t.arr) {
			start = i
		} else {
			t.compact()
			pos := -1
			for j, ok := range t.order {
				if ok == k {
					pos = j
					break
				}
			}
			if pos < 0 {
				return nil, nil, false
			}
			for j := pos + 1; j < len(t.order); j++ {
				if v, ok := t.hash[t.order[j]]; ok {
					return t.order[j], v, true
				}
			}
			return nil, nil, true
		}
	}
	if start < len(t.arr) {
		return float64(start + 1), t.arr[start], true
	}
	t.compact()
	for _, hk := range t.order {
		if v, ok := t.hash[hk]; ok {
			return hk, v, true
		}
	}
	return nil, nil, true
}

// Closure is a Lua function value.
type Closure struct {
	fn  *funcExpr
	env *scope
}

// GoFunc is a library function.
type GoFunc struct {
	Name string
	Fn   func(it *Interp, args []Value) []Value
}

func typeName(v Value) string {
	switch v.(type) {
	case nil:
		return "nil"
	case bool:
		return "boolean"
	case float64:
		return "number"
	case string:
		return "string"
	case *Table:
		return "table"
	case *Closure, *GoFunc:
		return "function"
	}
	return "userdata"
}

func truthy(v Value) bool {
	if v == nil {
		return false
	}
	if b, ok := v.(bool); ok {
		return b
	}
	return true
}

// fmtNumber is Lua 5.1's LUA_NUMBER_FMT "%.14g".
func fmtNumber(f float64) string {
	switch {
	case f != f:
		if math.Signbit(f) {
			return "-nan"
		}
		return "nan"
	case math.IsInf(f, 1):
		return "inf"
	case math.IsInf(f, -1):
		return "-inf"
	}
	return strconv.FormatFloat(f, 'g', 14, 64)
}

func toStr(v Value) string {
	switch x := v.(type) {
	case nil:
		return "nil"
	case bool:
		if x {
			return "true"
		}
		return "false"
	case float64:
		return fmtNumber(x)
	case string:
		return x
	case *Table:
		return fmt.Sprintf("table: %p", x)
	case *Closure:
		return fmt.Sprintf("function: %p", x)
	case *GoFunc:
		return "function: builtin: " + x.Name
	}
	return fmt.Sprint(v)
}

func isSpace(c byte) bool {
	return c == ' ' || c == '\t' || c == '\n' || c == '\v' || c == '\f' || c == '\r'
}

// str2number is luaO_str2d of Lua 5.1 built on the C library's strtod: optional white space and
// sign, a decimal numeral with optional fraction/exponent, a hexadecimal numeral (integer, or a C99
// hex float), "inf"/"infinity"/"nan" as glibc accepts them; trailing white space only.
func str2number(s string) (float64, bool) {
	i := 0
	for i < len(s) && isSpace(s[i]) {
		i++
	}
	j := len(s)
	for j > i && isSpace(s[j-1]) {
		j--
	}
	body := s[i:j]
	if body == "" || strings.IndexByte(body, 0) >= 0 {
		return 0, false
	}
	neg := false
	rest := body
	if rest[0] == '+' || rest[0] == '-' {
		neg = rest[0] == '-'
		rest = rest[1:]
	}
	if rest == "" {
		return 0, false
	}
	var f float64
	low := strings.ToLower(rest)
	switch {
	case low == "inf" || low == "infinity":
		f = math.Inf(1)
	case low == "nan":
		f = math.NaN()
	case strings.HasPrefix(low, "0x"):
		h := low[2:]
		if h == "" {
			return 0, false
		}
		if !strings.ContainsAny(h, ".p") {
			u, err := strconv.ParseUint(h, 16, 64)
			if err != nil {
				// more than 16 hex digits: strtod still converts (rounded)
				for _, c := range []byte(h) {
					if !isHex(c) {
						return 0, false
					}
				}
				g, err := strconv.ParseFloat("0x"+h+"p0", 64)
				if err != nil {
					return 0, false
				}
				f = g
			} else {
				f = float64(u)
			}
		} else {
			if !strings.Contains(h, "p") {
				low += "p0"
			}
			g, err := strconv.ParseFloat(low, 64)
			if err != nil {
				return 0, false
			}
			f = g
		}
	default:
		// only decimal digits, one '.', an exponent: Go accepts '_' and other forms C does not
		seenDigit, seenDot, k := false, false, 0
		for k < len(rest) && (isDigit(rest[k]) || (rest[k] == '.' && !seenDot)) {
			if rest[k] == '.' {
				seenDot = true
			} else {
				seenDigit = true
			}
			k++
		}
		if !seenDigit {
			return 0, false
		}
		if k < len(rest) {
			if rest[k] != 'e' && rest[k] != 'E' {
				return 0, false
			}
			k++
			if k < len(rest) && (rest[k] == '+' || rest[k] == '-') {
				k++
			}
			if k >= len(rest) {
				return 0, false
			}
			for ; k < len(rest); k++ {
				if !isDigit(rest[k]) {
					return 0, false
				}
			}
		}
		g, err := strconv.ParseFloat(rest, 64)
		if err != nil {
			if ne, ok := err.(*strconv.NumError); !ok || ne.Err != strconv.ErrRange {
				return 0, false
			}
		}
		f = g
	}
	if neg {
		f = -f
	}
	return f, true
}

// toNumber: number, or string convertible to a number (the coercion arithmetic applies)
func toNumber(v Value) (float64, bool) {
	switch x := v.(type) {
	case float64:
		return x, true
	case string:
		return str2number(x)
	}
	return 0, false
}
