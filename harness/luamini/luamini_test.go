package luamini

import (
	"os"
	"path/filepath"
	"regexp"
	"strconv"
	"strings"
	"testing"
)

// a tiny string/hash store behind redis.call for the tests
type store struct {
	kv  map[string]string
	h   map[string]map[string]string
	log [][]string
}

func newStore() *store { return &store{kv: map[string]string{}, h: map[string]map[string]string{}} }

func (s *store) call(a []string) Reply {
	s.log = append(s.log, a)
	switch strings.ToUpper(a[0]) {
	case "GET":
		if v, ok := s.kv[a[1]]; ok {
			return Bulk(v)
		}
		return Nil()
	case "SET":
		for _, o := range a[3:] {
			if strings.ToUpper(o) == "NX" {
				if _, ok := s.kv[a[1]]; ok {
					return Nil()
				}
			}
		}
		s.kv[a[1]] = a[2]
		return Status("OK")
	case "DEL":
		n := int64(0)
		for _, k := range a[1:] {
			if _, ok := s.kv[k]; ok {
				delete(s.kv, k)
				n++
			}
		}
		return Int(n)
	case "INCRBY":
		cur, err := strconv.ParseInt(s.kv[a[1]], 10, 64)
		if err != nil && s.kv[a[1]] != "" {
			return Error("ERR value is not an integer or out of range")
		}
		d, err := strconv.ParseInt(a[2], 10, 64)
		if err != nil {
			return Error("ERR value is not an integer or out of range")
		}
		s.kv[a[1]] = strconv.FormatInt(cur+d, 10)
		return Int(cur + d)
	case "HSET":
		if len(a) < 4 || len(a)%2 != 0 {
			return Error("ERR wrong number of arguments for 'hset' command")
		}
		if s.h[a[1]] == nil {
			s.h[a[1]] = map[string]string{}
		}
		n := int64(0)
		for i := 2; i+1 < len(a); i += 2 {
			if _, ok := s.h[a[1]][a[i]]; !ok {
				n++
			}
			s.h[a[1]][a[i]] = a[i+1]
		}
		return Int(n)
	case "HGET":
		if v, ok := s.h[a[1]][a[2]]; ok {
			return Bulk(v)
		}
		return Nil()
	case "TIME":
		return Array(Bulk("1700000000"), Bulk("123456"))
	case "ECHOARR":
		return Array(Int(1), Nil(), Bulk("x"), Array(Int(2)))
	case "WRONG":
		return Error("WRONGTYPE Operation against a key holding the wrong kind of value")
	}
	return Error("ERR unknown command '" + a[0] + "'")
}

func run(t *testing.T, src string, keys, argv []string) Reply {
	t.Helper()
	return Eval(src, keys, argv, newStore().call)
}

func TestExpressions(t *testing.T) {
	cases := []struct{ src, want string }{
		// arithmetic: every number is a double, the reply truncates towards zero
		{`return 10/3`, `:3`},
		{`return tostring(10/3)`, `$"3.3333333333333"`},
		{`return -10/3`, `:-3`},
		{`return 7/2`, `:3`},
		{`return -7/2`, `:-3`},
		{`return 0.999`, `:0`},
		{`return -0.999`, `:0`},
		{`return 2^53`, `:9007199254740992`},
		{`return 2^10`, `:1024`},
		{`return -2^2`, `:-4`},
		{`return 2^-1 * 4`, `:2`},
		{`return 2^3^2`, `:512`},
		{`return 1e3`, `:1000`},
		{`return 0x10`, `:16`},
		{`return .5 * 4`, `:2`},
		{`return 1 + 2 * 3 - 4 / 2`, `:5`},
		{`return (1 + 2) * 3`, `:9`},
		// % takes the sign of the divisor (a - floor(a/b)*b)
		{`return -7 % 3`, `:2`},
		{`return 7 % -3`, `:-2`},
		{`return -7 % -3`, `:-1`},
		{`return 7 % 3`, `:1`},
		{`return tostring(5.5 % 2)`, `$"1.5"`},
		{`local x = 5 % 0 return x ~= x`, `:1`},
		{`local x = -5 % 0 return x ~= x`, `:1`},
		{`return (5 % 0 == 0) and 1 or 0`, `:0`},
		{`return tostring(1/0) .. tostring(-1/0)`, `$"inf-inf"`},
		{`local x = 5 % math.huge return x ~= x`, `:1`},
		{`return -7 % 3 == 2`, `:1`},
		// string -> number coercion in arithmetic, number -> string in concatenation
		{`return "10" + 5`, `:15`},
		{`return "3" * "4"`, `:12`},
		{`return "0x10" + 0`, `:16`},
		{`return " 7 " + 1`, `:8`},
		{`return "1e2" + 1`, `:101`},
		{`return 10 .. 20`, `$"1020"`},
		{`return 1.5 .. "x"`, `$"1.5x"`},
		{`return "a" .. "b" .. "c"`, `$"abc"`},
		{`return -"2"`, `:-2`},
		{`return "10" == 10`, `_`},
		{`return "abc" < "abd"`, `:1`},
		{`return "Z" < "a"`, `:1`},
		{`return "" < "a"`, `:1`},
		{`return 2 < 10`, `:1`},
		{`return "2" < "10"`, `_`},
		// tonumber / tostring
		{`return tonumber("0x10")`, `:16`},
		{`return tonumber("0X1f")`, `:31`},
		{`return tonumber("  12  ")`, `:12`},
		{`return tonumber("12a")`, `_`},
		{`return tonumber("")`, `_`},
		{`return tonumber(" ")`, `_`},
		{`return tonumber("1e")`, `_`},
		{`return tonumber("1_0")`, `_`},
		{`return tonumber("1e2")`, `:100`},
		{`return tonumber(".5e1")`, `:5`},
		{`return tonumber("5.")`, `:5`},
		{`return tonumber("-3")`, `:-3`},
		{`return tonumber("+3")`, `:3`},
		{`return tonumber("- 3")`, `_`},
		{`return tonumber(nil)`, `_`},
		{`return tonumber(true)`, `_`},
		{`return tonumber({})`, `_`},
		{`return tonumber(12.75)`, `:12`},
		{`return tonumber("ff", 16)`, `:255`},
		{`return tonumber("777", 8)`, `:511`},
		{`return tonumber("z", 36)`, `:35`},
		{`return tonumber("8", 8)`, `_`},
		{`return tonumber("10", 2)`, `:2`},
		{`return tostring(1e15)`, `$"1e+15"`},
		{`return tostring(1e14)`, `$"1e+14"`},
		{`return tostring(123456789012345)`, `$"1.2345678901234e+14"`},
		{`return tostring(12345678901234)`, `$"12345678901234"`},
		{`return tostring(99999999999999)`, `$"99999999999999"`},
		{`return tostring(0.1)`, `$"0.1"`},
		{`return tostring(1/3)`, `$"0.33333333333333"`},
		{`return tostring(100)`, `$"100"`},
		{`return tostring(-0.0001)`, `$"-0.0001"`},
		{`return tostring(0.00001)`, `$"1e-05"`},
		{`return tostring(2^63)`, `$"9.2233720368548e+18"`},
		{`return tostring(nil) .. tostring(true) .. tostring(false)`, `$"niltruefalse"`},
		{`return tostring("x")`, `$"x"`},
		{`return 1700000000 * 1000 + math.floor(123456/1000)`, `:1700000000123`},
		{`return tostring(1700000000 * 1000 + math.floor(123456/1000))`, `$"1700000000123"`},
		// logic
		{`return nil or 5`, `:5`},
		{`return false or nil`, `_`},
		{`return nil and 5`, `_`},
		{`return 0 and 5`, `:5`},
		{`return "" and 6`, `:6`},
		{`return false and error("not evaluated")`, `_`},
		{`return 1 or error("not evaluated")`, `:1`},
		{`return not nil`, `:1`},
		{`return not 0`, `_`},
		{`return 1 == 1.0`, `:1`},
		{`return 1 ~= 2`, `:1`},
		{`return nil == false`, `_`},
		{`return (3 % 2 == 1) and "odd" or nil`, `$"odd"`},
		{`return (4 % 2 == 1) and "odd" or nil`, `_`},
		{`return 1 < 2 == true`, `:1`},
		{`return not 1 == 2`, `_`},
		{`return "a" .. "b" == "ab"`, `:1`},
		{`return 1 .. 2 == "12"`, `:1`},
		{`return 2 * 3 .. ""`, `$"6"`},
		// length
		{`return #"hello"`, `:5`},
		{`return #{1, 2, 3}`, `:3`},
		{`return #{}`, `:0`},
		{`return #{n = 1}`, `:0`},
		{`return #ARGV`, `:0`},
		{`return -#"ab"`, `:-2`},
		// math / string / table
		{`return math.floor(3.7) + math.ceil(3.2)`, `:7`},
		{`return math.floor(-3.5)`, `:-4`},
		{`return math.ceil(-3.5)`, `:-3`},
		{`return math.max(1, 5, 3) - math.min(4, 2, 8)`, `:3`},
		{`return math.abs(-4)`, `:4`},
		{`return math.floor("3.9")`, `:3`},
		{`return tostring(math.huge)`, `$"inf"`},
		{`return string.sub("hello", 2, 4)`, `$"ell"`},
		{`return string.sub("hello", -3)`, `$"llo"`},
		{`return string.sub("hello", 2)`, `$"ello"`},
		{`return string.sub("hello", 0)`, `$"hello"`},
		{`return string.sub("hello", 4, 100)`, `$"lo"`},
		{`return string.sub("hello", 4, 2)`, `$""`},
		{`return string.sub("hello", -100, 2)`, `$"he"`},
		{`return ("hello"):sub(1, 1)`, `$"h"`},
		{`local s = "abc" return s:len()`, `:3`},
		{`local s = "abc" return s:upper() .. s:rep(2)`, `$"ABCabcabc"`},
		{`return string.len("abc") + string.len(12)`, `:5`},
		{`return string.rep("ab", 3)`, `$"ababab"`},
		{`return string.rep("ab", 0)`, `$""`},
		{`return string.byte("A")`, `:65`},
		{`return {string.byte("ABC", 1, -1)}`, `*[:65,:66,:67]`},
		{`return string.byte("ABC", -1)`, `:67`},
		{`return string.byte("", 1)`, `_`},
		{`return string.char(72, 105)`, `$"Hi"`},
		{`return string.format("%d-%s-%5.2f|%x|%05d|%%", 42, "x", 3.14159, 255, 42)`, `$"42-x- 3.14|ff|00042|%"`},
		{`return string.format("%d", 3.99)`, `$"3"`},
		{`return string.format("%s", 12)`, `$"12"`},
		{`return string.format("%g", 0.5)`, `$"0.5"`},
		{`return string.format("%.3f", 2/3)`, `$"0.667"`},
		{`return string.format("%q", 'a"b')`, `$"\"a\\\"b\""`},
		{`return string.format("%-4s|", "ab")`, `$"ab  |"`},
		{`return string.lower("AbC") .. string.upper("AbC") .. string.reverse("abc")`, `$"abcABCcba"`},
		{`return string.find("hello", "ll", 1, true)`, `:3`},
		{`return {string.find("hello", "l")}`, `*[:3,:3]`},
		{`return string.find("hello", "z")`, `_`},
		{`local t = {} table.insert(t, "a") table.insert(t, "b") table.insert(t, 1, "c") return t`, `*[$"c",$"a",$"b"]`},
		{`local t = {1, 2, 3} local x = table.remove(t) return {x, #t}`, `*[:3,:2]`},
		{`local t = {1, 2, 3} local x = table.remove(t, 1) return {x, #t, t[1], t[2]}`, `*[:1,:2,:2,:3]`},
		{`local t = {} return table.remove(t)`, `_`},
		{`return table.getn({5, 6})`, `:2`},
		{`return table.concat({1, "a", 2.5}, ",")`, `$"1,a,2.5"`},
		{`return table.concat({}, ",")`, `$""`},
		{`local t = {3, 1, 2} table.sort(t) return t`, `*[:1,:2,:3]`},
		{`local t = {3, 1, 2} table.sort(t, function(a, b) return a > b end) return t`, `*[:3,:2,:1]`},
		{`local t = {"b", "a"} table.sort(t) return t`, `*[$"a",$"b"]`},
		{`return {unpack({1, 2, 3})}`, `*[:1,:2,:3]`},
		{`return {unpack({1, 2, 3}, 2)}`, `*[:2,:3]`},
		{`return {unpack({1, 2, 3}, 2, 3)}`, `*[:2,:3]`},
		{`return (unpack({7, 8}))`, `:7`},
		{`return select("#", 1, 2, 3)`, `:3`},
		{`return {select(2, "a", "b", "c")}`, `*[$"b",$"c"]`},
		{`return select(-1, "a", "b", "c")`, `$"c"`},
		{`return type(nil) .. type(1) .. type("") .. type({}) .. type(print_is_gone or type) .. type(true)`, `-ERR user_script:1: Script attempted to access nonexistent global variable 'print_is_gone'`},
		{`return type(nil) .. type(1) .. type("") .. type({}) .. type(type) .. type(true)`, `$"nilnumberstringtablefunctionboolean"`},
		// reply conversion
		{`return 3.99`, `:3`},
		{`return -3.99`, `:-3`},
		{`return "3.99"`, `$"3.99"`},
		{`return true`, `:1`},
		{`return false`, `_`},
		{`return nil`, `_`},
		{`return`, `_`},
		{``, `_`},
		{`local x = 1`, `_`},
		{`return {1, 2, nil, 4}`, `*[:1,:2]`},
		{`return {1, "a", true, false, 2.9}`, `*[:1,$"a",:1,_,:2]`},
		{`return {{1, {2}}, {}}`, `*[*[:1,*[:2]],*[]]`},
		{`return {nil, 1}`, `*[]`},
		{`return {x = 1}`, `*[]`},
		{`return {1, x = 2, 3}`, `*[:1,:3]`},
		{`return {ok = "FINE"}`, `+FINE`},
		{`return {err = "MYERR something"}`, `-MYERR something`},
		{`return redis.status_reply("PONG")`, `+PONG`},
		{`return redis.error_reply("MY ERR")`, `-MY ERR`},
		{`return redis.error_reply("oops")`, `-ERR oops`},
		{`return 1, 2, 3`, `:1`},
		{`return (function() return 4, 5 end)()`, `:4`},
		{`return function() end`, `_`},
		{`return 2^63`, `:-9223372036854775808`},
		{`return 0/0`, `:-9223372036854775808`},
		{`return 9007199254740993`, `:9007199254740992`},
		{`return redis.sha1hex("")`, `$"da39a3ee5e6b4b0d3255bfef95601890afd80709"`},
	}
	for _, c := range cases {
		if got := run(t, c.src, nil, nil).String(); got != c.want {
			t.Errorf("%q: got %s want %s", c.src, got, c.want)
		}
	}
}

func TestStatements(t *testing.T) {
	cases := []struct{ src, want string }{
		{`local a, b, c = 1, 2 return {a, b, c == nil}`, `*[:1,:2,:1]`},
		{`local a, b = 1, 2, 3 return a + b`, `:3`},
		{`local function f() return 1, 2, 3 end local a, b, c, d = f() return {a, b, c, d == nil}`, `*[:1,:2,:3,:1]`},
		{`local function f() return 1, 2, 3 end local a, b = f(), 10 return {a, b}`, `*[:1,:10]`},
		{`local function f() return 1, 2, 3 end return {f(), f()}`, `*[:1,:1,:2,:3]`},
		{`local function f() return 1, 2, 3 end return {(f())}`, `*[:1]`},
		{`local function f() end return {f(), 5}`, `*[]`},
		{`local function f() end local t = {f()} return #t`, `:0`},
		{`local a, b = 1, 2 a, b = b, a return {a, b}`, `*[:2,:1]`},
		{`local t = {} t.x, t.y = 1, 2 return t.x + t.y`, `:3`},
		{`local i = 1 local t = {} i, t[i] = i + 1, 20 return {i, t[1]}`, `*[:2,:20]`},
		{`local x = 5 do local x = 6 end return x`, `:5`},
		{`local x = 5 do x = 6 end return x`, `:6`},
		{`local x = 1 local x = x + 1 return x`, `:2`},
		{`local n = 0 for i = 1, 10 do n = n + i end return n`, `:55`},
		{`local n = 0 for i = 10, 1, -3 do n = n + i end return n`, `:22`},
		{`local n = 0 for i = 1, 0 do n = n + 1 end return n`, `:0`},
		{`local n = 0 for i = 1, 3 do local i = i * 2 n = n + i end return n`, `:12`},
		{`local n = 0 for i = 1, 2, 0.5 do n = n + 1 end return n`, `:3`},
		{`local n = 0 for i = "1", "3" do n = n + i end return n`, `:6`},
		{`local n = 0 for i = 1, 5, 0 do n = n + 1 end return n`, `:0`}, // zero step compares like a negative one
		{`local n = 0 for i = 1, 10 do if i > 3 then break end n = n + 1 end return n`, `:3`},
		{`local n = 0 for i = 1, 3 do for j = 1, 3 do if j == 2 then break end n = n + 1 end end return n`, `:3`},
		{`local n = 0 while n < 5 do n = n + 1 end return n`, `:5`},
		{`local n = 0 while true do n = n + 1 if n == 4 then break end end return n`, `:4`},
		{`local n = 0 repeat n = n + 1 until n >= 3 return n`, `:3`},
		{`local n = 0 repeat local done = n >= 2 n = n + 1 until done return n`, `:3`},
		{`local s = 0 for i, v in ipairs({5, 6, nil, 8}) do s = s + i * v end return s`, `:17`},
		{`local s = 0 for k, v in pairs({a = 1, b = 2, 3}) do s = s + v end return s`, `:6`},
		{`local s = "" for k, v in pairs({10, 20, x = 30}) do s = s .. k .. "=" .. v .. ";" end return s`, `$"1=10;2=20;x=30;"`},
		{`local t = {a = 1} local k, v = next(t) return {k, v, next(t, k) == nil}`, `*[$"a",:1,:1]`},
		{`return next({}) == nil`, `:1`},
		{`if nil then return 1 elseif false then return 2 elseif 0 then return 3 else return 4 end`, `:3`},
		{`if false then return 1 else return 4 end`, `:4`},
		{`if false then return 1 end return 9`, `:9`},
		{`local t = {a = 1, ["b c"] = 2, [3] = "x", 7} return {t.a, t["b c"], t[3], t[1]}`, `*[:1,:2,$"x",:7]`},
		{`local t = {1, 2; 3} return #t`, `:3`},
		{`local t = {[1] = "a", [2] = "b"} return #t`, `:2`},
		{`local t = {} t[1] = 1 t[2] = 2 t[3] = 3 t[3] = nil return #t`, `:2`},
		{`local t = {} t[2] = "x" t[1] = "y" return {#t, t[1], t[2]}`, `*[:2,$"y",$"x"]`},
		{`local t = {} t[1.0] = "a" return t[1]`, `$"a"`},
		{`local t = {} t["1"] = "a" return t[1] == nil`, `:1`},
		{`local t = {} local k = {} t[k] = 5 return t[k]`, `:5`},
		{`local t = {} t.a = {} t.a.b = 3 return t.a.b`, `:3`},
		{`local t = {} t[true] = 1 return t[true]`, `:1`},
		{`local function fib(n) if n < 2 then return n end return fib(n - 1) + fib(n - 2) end return fib(15)`, `:610`},
		{`local f = function(a, b) return (a or 0) + (b or 0) end return f(1) + f(1, 2) + f(1, 2, 3)`, `:7`},
		{`local function mk() local c = 0 return function() c = c + 1 return c end end local a, b = mk(), mk() a() a() return a() * 10 + b()`, `:31`},
		{`local fs = {} for i = 1, 3 do fs[i] = function() return i end end return fs[1]() + fs[2]() + fs[3]()`, `:6`},
		{`local function v(...) local a, b = ... return select("#", ...) * 100 + a + b end return v(1, 2, 3)`, `:303`},
		{`local function v(...) return {...} end return v(1, 2, 3)`, `*[:1,:2,:3]`},
		{`local function v(...) local t = {..., 9} return t end return v(1, 2, 3)`, `*[:1,:9]`},
		{`local t = {} function t.f(x) return x + 1 end return t.f(1)`, `:2`},
		{`local t = {n = 5} function t:get(d) return self.n + d end return t:get(1)`, `:6`},
		{`local t = {f = function(self, x) return x * 2 end} return t:f(4)`, `:8`},
		{`local s = "x" return #s .. s`, `$"1x"`},
		{`local ok, e = pcall(function() error("boom") end) return {ok, e}`, `*[_,$"user_script:1: boom"]`},
		{`local ok, e = pcall(function() error({code = 7}) end) return e.code`, `:7`},
		{`local ok, e = pcall(function() error("boom", 0) end) return e`, `$"boom"`},
		{`local ok, a, b = pcall(function() return 1, 2 end) return {ok, a, b}`, `*[:1,:1,:2]`},
		{`local ok, e = pcall(function() local x = nil; return x.y end) return ok`, `_`},
		{`return assert(5, "m")`, `:5`},
		{`-- comment
		  local x = 1 --[[ block
		  comment ]] local y = 2 --[==[ another ]] ]==]
		  return x + y`, `:3`},
		{`local s = [[
line1
line2]] return s`, `$"line1\nline2"`},
		{`return "a\tb\\n\065\10"`, "$\"a\\tb\\\\nA\\n\""},
		{`return 'it''s'`, `-ERR luamini: syntax error: user_script:1: '<eof>' or block end expected after return near "s"`},
		{"local a = 1;local b = 2;;return a + b", `-ERR luamini: syntax error: user_script:1: unexpected symbol near ;`},
		{"local a = 1;local b = 2;return a + b;", `:3`},
		{`local t = {f = function() return 1 end} return t.f() + t["f"]()`, `:2`},
		{`local f = function(t) return t[1] end return f{9} .. f{"x"}`, `$"9x"`},
		{`local f = function(s) return s end return f"lit" .. f'lit2' .. f[[lit3]]`, `$"litlit2lit3"`},
	}
	for _, c := range cases {
		if got := run(t, c.src, nil, nil).String(); got != c.want {
			t.Errorf("%q: got %s want %s", c.src, got, c.want)
		}
	}
}

func TestErrorsAndRefusals(t *testing.T) {
	cases := []struct{ src, prefix string }{
		{`return 1 + nil`, `-ERR user_script:1: attempt to perform arithmetic on a nil value`},
		{`local x return x + 1`, `-ERR user_script:1: attempt to perform arithmetic on 'x' (a nil value)`},
		{`return "a" + 1`, `-ERR user_script:1: attempt to perform arithmetic on a string value`},
		{`return {} .. "x"`, `-ERR user_script:1: attempt to concatenate a table value`},
		{`return nil .. "x"`, `-ERR user_script:1: attempt to concatenate a nil value`},
		{`return 1 < "2"`, `-ERR user_script:1: attempt to compare number with string`},
		{`return {} < {}`, `-ERR user_script:1: attempt to compare two table values`},
		{`return nil < 1`, `-ERR user_script:1: attempt to compare nil with number`},
		{"local t = nil\nreturn t.x", `-ERR user_script:2: attempt to index 't' (a nil value)`},
		{`local t = {} t.x.y = 1`, `-ERR user_script:1: attempt to index field 'x' (a nil value)`},
		{`local f f()`, `-ERR user_script:1: attempt to call 'f' (a nil value)`},
		{`return #5`, `-ERR user_script:1: attempt to get length of a number value`},
		{`local t = {} t[nil] = 1`, `-ERR user_script:1: table index is nil`},
		{`local t = {} t[0/0] = 1`, `-ERR user_script:1: table index is NaN`},
		{`x = 1`, `-ERR user_script:1: Script attempted to create global variable 'x'`},
		{`function f() end`, `-ERR user_script:1: Script attempted to create global variable 'f'`},
		{`return y`, `-ERR user_script:1: Script attempted to access nonexistent global variable 'y'`},
		{`error("custom")`, `-ERR user_script:1: custom`},
		{`error({err = "CUSTOM x"})`, `-CUSTOM x`},
		{`assert(false)`, `-ERR assertion failed!`},
		{`assert(nil, "why")`, `-ERR why`},
		{`for i = 1, "x" do end`, `-ERR user_script:1: 'for' limit must be a number`},
		{`return math.floor("x")`, `-ERR user_script:1: bad argument #1 to 'floor' (number expected, got string)`},
		{`return math.floor()`, `-ERR user_script:1: bad argument #1 to 'floor' (number expected, got no value)`},
		{`table.insert(nil, 1)`, `-ERR user_script:1: bad argument #1 to 'insert' (table expected, got nil)`},
		{`local function f() return f() + 1 end return f()`, `-ERR user_script:1: stack overflow`},
		{`return redis.call()`, `-ERR user_script:1: Please specify at least one argument`},
		{`return redis.call("GET", {})`, `-ERR user_script:1: Lua redis lib command arguments must be strings or integers`},
		{`return redis.call("GET", nil)`, `-ERR user_script:1: Lua redis lib command arguments must be strings or integers`},
		{`return redis.call("GET", true)`, `-ERR user_script:1: Lua redis lib command arguments must be strings or integers`},
		{`return redis.call("WRONG")`, `-WRONGTYPE Operation against a key`},
		{`return redis.call("NOPE")`, `-ERR unknown command 'NOPE'`},
		{`local r = redis.pcall("WRONG") return r.err`, `$"WRONGTYPE Operation`},
		{`return redis.pcall("WRONG")`, `-WRONGTYPE Operation`},
		{`local ok, e = pcall(redis.call, "WRONG") return {ok, e.err}`, `*[_,$"WRONGTYPE`},
		// syntax errors
		{`return 1 +`, `-ERR luamini: syntax error: user_script:1: unexpected symbol near <eof>`},
		{`if x then`, `-ERR luamini: syntax error: user_script:1: 'end' expected near <eof>`},
		{`local 1 = 2`, `-ERR luamini: syntax error: user_script:1: <name> expected near 1`},
		{`return "abc`, `-ERR luamini: syntax error: user_script:1: unfinished string`},
		{`break`, `-ERR luamini: syntax error: user_script:1: no loop to break`},
		{`for i = 1, 2 do local f = function() break end end`, `-ERR luamini: syntax error: user_script:1: no loop to break`},
		{`return 1 return 2`, `-ERR luamini: syntax error: user_script:1: '<eof>' or block end expected after return near return`},
		{`local a = 5 $ 3`, `-ERR luamini: syntax error: user_script:1: unexpected symbol near "$"`},
		{`return 3x`, `-ERR luamini: syntax error: user_script:1: malformed number near "3x"`},
		{`goto done`, `-ERR luamini: syntax error`},
		{`local x <const> = 1`, `-ERR luamini: syntax error`},
		{`return 7 // 2`, `-ERR luamini: syntax error`},
		{`return 1 & 2`, `-ERR luamini: syntax error`},
		{`f() = 1`, `-ERR luamini: syntax error`},
		{`1 + 1`, `-ERR luamini: syntax error`},
		// refusals: valid Lua / Redis features that are not implemented
		{`return cjson.encode({})`, `-ERR luamini: unsupported library / global 'cjson'`},
		{`return cmsgpack.pack(1)`, `-ERR luamini: unsupported library / global 'cmsgpack'`},
		{`return bit.band(1, 2)`, `-ERR luamini: unsupported library / global 'bit'`},
		{`return setmetatable({}, {})`, `-ERR luamini: unsupported library / global 'setmetatable'`},
		{`return string.gsub("a", "a", "b")`, `-ERR luamini: unsupported function string.gsub`},
		{`return string.match("a", "a")`, `-ERR luamini: unsupported function string.match`},
		{`return ("a"):gsub("a", "b")`, `-ERR luamini: unsupported function string.gsub`},
		{`return string.find("abc", "b.")`, `-ERR luamini: unsupported Lua patterns`},
		{`return math.random()`, `-ERR luamini: unsupported function math.random`},
		{`redis.setresp(3)`, `-ERR luamini: unsupported function redis.setresp`},
		{`return pcall(function() return cjson.encode({}) end)`, `-ERR luamini: unsupported library / global 'cjson'`},
		{`local t = {1, 2, 3} t[2] = nil return #t`, `-ERR luamini: unsupported length / sequence operation on a table with holes`},
		{`local t = {} t[5] = 1 return #t`, `-ERR luamini: unsupported length / sequence operation on a table with holes`},
		{`local t = {1, nil, 3} table.insert(t, 4)`, `-ERR luamini: unsupported length / sequence operation on a table with holes`},
		{`return {unpack({1, nil, 3})}`, `-ERR luamini: unsupported length / sequence operation on a table with holes`},
		{`return {double = 1.5}`, `-ERR luamini: unsupported RESP3 reply table with field 'double'`},
		{"#!lua flags=no-writes\nreturn 1", `-ERR luamini: unsupported shebang line`},
		{`while true do end`, `-ERR luamini: unsupported: script exceeded the budget`},
		{`for i = 1, 1, 0 do end`, `-ERR luamini: unsupported: script exceeded the budget`},
	}
	for _, c := range cases {
		p, err := Compile(c.src)
		var got string
		if err != nil {
			got = Error("ERR " + err.Error()).String()
		} else {
			r, _ := p.Run(nil, nil, newStore().call, &Options{StepBudget: 200000})
			got = r.String()
		}
		if !strings.HasPrefix(got, c.prefix) {
			t.Errorf("%q: got %s want prefix %s", c.src, got, c.prefix)
		}
	}
}

func TestRedisConventions(t *testing.T) {
	s := newStore()
	ev := func(src string, keys, argv []string) string { return Eval(src, keys, argv, s.call).String() }
	eq := func(got, want string) {
		t.Helper()
		if got != want {
			t.Errorf("got %s want %s", got, want)
		}
	}
	eq(ev(`return {KEYS[1], KEYS[2], ARGV[1], #KEYS, #ARGV, KEYS[3] == nil}`, []string{"k1", "k2"}, []string{"a"}), `*[$"k1",$"k2",$"a",:2,:1,:1]`)
	eq(ev(`return redis.call("SET", KEYS[1], ARGV[1])`, []string{"k"}, []string{"v"}), `+OK`)
	eq(ev(`return redis.call("set", KEYS[1], ARGV[1], "NX")`, []string{"k"}, []string{"w"}), `_`)
	eq(ev(`if redis.call("SET", KEYS[1], "w", "NX") then return 1 else return 0 end`, []string{"k"}, nil), `:0`) // nil reply is false
	eq(ev(`return redis.call("GET", KEYS[1])`, []string{"k"}, nil), `$"v"`)
	eq(ev(`return redis.call("GET", KEYS[1])`, []string{"none"}, nil), `_`)
	eq(ev(`return redis.call("GET", "none") == false`, nil, nil), `:1`)
	eq(ev(`return redis.call("SET", "k", "v").ok`, nil, nil), `$"OK"`)
	eq(ev(`return type(redis.call("INCRBY", "n", 5))`, nil, nil), `$"number"`)
	eq(ev(`return redis.call("INCRBY", "n", ARGV[1] + 1)`, nil, []string{"2"}), `:8`)
	// numbers are rendered as integers when integral, else with 17 significant digits
	s.log = nil
	ev(`redis.call("ECHOARR", 1700000000000 + 1000, 1.5, 2^53, 1e15, -0, 0.1, "007", 2^63)`, nil, nil)
	eq(strings.Join(s.log[0], " "), `ECHOARR 1700000001000 1.5 9007199254740992 1000000000000000 0 0.10000000000000001 007 9.2233720368547758e+18`)
	eq(ev(`local r = redis.call("ECHOARR") return {r[1], r[2], r[3], r[4][1], #r}`, nil, nil), `*[:1,_,$"x",:2,:4]`)
	eq(ev(`return redis.call("ECHOARR")`, nil, nil), `*[:1,_,$"x",*[:2]]`)
	eq(ev(`local t = redis.call("TIME") return tonumber(t[1]) * 1000 + math.floor(tonumber(t[2]) / 1000)`, nil, nil), `:1700000000123`)
	// ARGV is an ordinary table
	eq(ev(`ARGV[2] = tostring(tonumber(ARGV[2]) + 1) local e = (#ARGV % 2 == 1) and table.remove(ARGV) or nil return {e, #ARGV, ARGV[2]}`, nil, []string{"ver", "9", "f", "v", "123"}), `*[$"123",:4,$"10"]`)
	eq(ev(`local e = (#ARGV % 2 == 1) and table.remove(ARGV) or nil return {e == nil, #ARGV}`, nil, []string{"ver", "9"}), `*[:1,:2]`)
	eq(ev(`return redis.call("HSET", KEYS[1], unpack(ARGV))`, []string{"h"}, []string{"a", "1", "b", "2"}), `:2`)
	eq(ev(`return redis.call("HGET", KEYS[1], "b")`, []string{"h"}, nil), `$"2"`)
	eq(ev(`if redis.call("HSET", KEYS[1], "a", "1") then return "zero is true" end return "no"`, []string{"h"}, nil), `$"zero is true"`)
	eq(ev(`ARGV = {"x"} return ARGV[1]`, nil, []string{"a"}), `$"x"`)
	eq(ev(`redis = nil`, nil, nil), `-ERR user_script:1: Attempt to modify a readonly table (global 'redis')`)
	// an error raised by redis.call aborts the script, effects so far stay
	eq(ev(`redis.call("SET", "before", "1") redis.call("WRONG") redis.call("SET", "after", "1")`, nil, nil), `-WRONGTYPE Operation against a key holding the wrong kind of value`)
	if s.kv["before"] != "1" || s.kv["after"] != "" {
		t.Errorf("effects around a failed call: %v", s.kv)
	}
	// the run leaves nothing behind: a second run starts with fresh globals
	eq(ev(`ARGV[1] = "changed" return ARGV[1]`, nil, []string{"a"}), `$"changed"`)
	eq(ev(`return ARGV[1]`, nil, []string{"a"}), `$"a"`)
}

// every script literal of the add-on modules of the repository compiles (and the test knows how many
// there are, so that an extraction that silently finds nothing fails)
func TestRepositoryScriptsCompile(t *testing.T) {
	repo := os.Getenv("VERIF_REPO")
	if repo == "" {
		repo = "/repo"
	}
	if _, err := os.Stat(repo); err != nil {
		t.Skip("no repository at " + repo)
	}
	lit := regexp.MustCompile("(?s)`([^`]*redis\\.call[^`]*)`")
	n := 0
	for _, dir := range []string{"rueidisprob", "rueidislimiter", "rueidislock", "rueidisaside", "om"} {
		files, _ := filepath.Glob(filepath.Join(repo, dir, "*.go"))
		for _, f := range files {
			if strings.HasSuffix(f, "_test.go") {
				continue
			}
			src, err := os.ReadFile(f)
			if err != nil {
				t.Fatal(err)
			}
			for _, m := range lit.FindAllSubmatch(src, -1) {
				n++
				if _, err := Compile(string(m[1])); err != nil {
					t.Errorf("%s: script does not compile: %v\n%s", f, err, m[1])
				}
			}
		}
	}
	if n < 25 {
		t.Errorf("found only %d script literals, expected at least 25", n)
	}
	t.Logf("%d script literals compiled", n)
}
