package luamini

import (
	"fmt"
	"math"
	"strings"
)

// ---- tree-walking evaluator

// LuaError is a raised Lua error (error(), a runtime fault, a failed redis.call).
type LuaError struct {
	Value Value // the error value: a string, or a table with an `err` field
	// Unsupported marks a refusal of this interpreter (a library or semantics it does not implement),
	// as opposed to an error real Lua would raise too.
	Unsupported bool
}

func (e *LuaError) Error() string {
	if t, ok := e.Value.(*Table); ok {
		if s, ok := t.GetStr("err").(string); ok {
			return s
		}
	}
	return toStr(e.Value)
}

type cell struct{ v Value }

type scope struct {
	vars   map[string]*cell
	parent *scope
}

func (s *scope) lookup(name string) *cell {
	for sc := s; sc != nil; sc = sc.parent {
		if c, ok := sc.vars[name]; ok {
			return c
		}
	}
	return nil
}

func (s *scope) declare(name string, v Value) {
	if s.vars == nil {
		s.vars = map[string]*cell{}
	}
	s.vars[name] = &cell{v} // a fresh cell: a redeclared local does not disturb closures over the old one
}

type frame struct {
	varargs []Value
}

// Interp is one script run.
type Interp struct {
	globals map[string]Value
	call    CallFunc
	steps   int
	budget  int
	depth   int
	line    int
	strLib  *Table
}

const (
	ctlNone = iota
	ctlBreak
	ctlReturn
)

func (it *Interp) rtError(format string, a ...any) {
	panic(&LuaError{Value: fmt.Sprintf("user_script:%d: ", it.line) + fmt.Sprintf(format, a...)})
}

func (it *Interp) unsupported(format string, a ...any) {
	panic(&LuaError{Value: fmt.Sprintf("luamini: unsupported %s (user_script:%d)", fmt.Sprintf(format, a...), it.line), Unsupported: true})
}

func (it *Interp) tick() {
	it.steps++
	if it.steps > it.budget {
		panic(&LuaError{Value: fmt.Sprintf("luamini: unsupported: script exceeded the budget of %d steps (user_script:%d)", it.budget, it.line), Unsupported: true})
	}
}

func (it *Interp) execBlock(body []stmt, sc *scope, fr *frame) (int, []Value) {
	for _, s := range body {
		if ctl, vals := it.exec(s, sc, fr); ctl != ctlNone {
			return ctl, vals
		}
	}
	return ctlNone, nil
}

func (it *Interp) exec(s stmt, sc *scope, fr *frame) (int, []Value) {
	it.tick()
	it.line = s.stmtLine()
	switch x := s.(type) {
	case *localStmt:
		vals := it.evalList(x.exprs, sc, fr, len(x.names))
		for i, n := range x.names {
			sc.declare(n, vals[i])
		}
	case *localFuncStmt:
		sc.declare(x.name, nil)
		sc.vars[x.name].v = &Closure{fn: x.fn, env: sc}
	case *assignStmt:
		// Lua evaluates all expressions before assigning; the order of evaluation of the
		// targets' sub-expressions is unspecified (we go left to right)
		type target struct {
			name     string
			obj, key Value
		}
		tg := make([]target, len(x.targets))
		for i, t := range x.targets {
			switch e := t.(type) {
			case *nameExpr:
				tg[i].name = e.name
			case *indexExpr:
				tg[i].obj = it.eval(e.obj, sc, fr)
				tg[i].key = it.eval(e.key, sc, fr)
			}
		}
		vals := it.evalList(x.exprs, sc, fr, len(x.targets))
		it.line = x.line
		for i, t := range x.targets {
			switch e := t.(type) {
			case *nameExpr:
				it.setName(e.name, vals[i], sc)
			case *indexExpr:
				it.line = e.line
				it.setIndex(tg[i].obj, tg[i].key, vals[i], describe(e.obj))
			}
		}
	case *callStmt:
		it.evalCall(x.call, sc, fr)
	case *doStmt:
		return it.execBlock(x.body, &scope{parent: sc}, fr)
	case *ifStmt:
		for i, c := range x.conds {
			if truthy(it.eval(c, sc, fr)) {
				return it.execBlock(x.blocks[i], &scope{parent: sc}, fr)
			}
		}
		if x.hasEls {
			return it.execBlock(x.els, &scope{parent: sc}, fr)
		}
	case *whileStmt:
		for truthy(it.eval(x.cond, sc, fr)) {
			it.tick()
			ctl, vals := it.execBlock(x.body, &scope{parent: sc}, fr)
			if ctl == ctlBreak {
				break
			}
			if ctl == ctlReturn {
				return ctl, vals
			}
		}
	case *repeatStmt:
		for {
			it.tick()
			inner := &scope{parent: sc}
			ctl, vals := it.execBlock(x.body, inner, fr)
			if ctl == ctlBreak {
				break
			}
			if ctl == ctlReturn {
				return ctl, vals
			}
			if truthy(it.eval(x.cond, inner, fr)) { // the condition sees the body's locals
				break
			}
		}
	case *numForStmt:
		start, ok1 := toNumber(it.eval(x.start, sc, fr))
		if !ok1 {
			it.line = x.line
			it.rtError("'for' initial value must be a number")
		}
		limit, ok2 := toNumber(it.eval(x.end, sc, fr))
		if !ok2 {
			it.line = x.line
			it.rtError("'for' limit must be a number")
		}
		step := 1.0
		if x.step != nil {
			var ok3 bool
			step, ok3 = toNumber(it.eval(x.step, sc, fr))
			if !ok3 {
				it.line = x.line
				it.rtError("'for' step must be a number")
			}
		}
		// OP_FORPREP / OP_FORLOOP of Lua 5.1: a zero step compares like a negative one
		for i := start; (step > 0 && i <= limit) || (!(step > 0) && limit <= i); i += step {
			it.tick()
			inner := &scope{parent: sc}
			inner.declare(x.name, i)
			ctl, vals := it.execBlock(x.body, inner, fr)
			if ctl == ctlBreak {
				break
			}
			if ctl == ctlReturn {
				return ctl, vals
			}
		}
	case *genForStmt:
		init := it.evalList(x.exprs, sc, fr, 3)
		f, state, ctrl := init[0], init[1], init[2]
		for {
			it.tick()
			it.line = x.line
			rets := it.callValue(f, []Value{state, ctrl}, "for iterator")
			if len(rets) == 0 || rets[0] == nil {
				break
			}
			ctrl = rets[0]
			inner := &scope{parent: sc}
			for i, n := range x.names {
				var v Value
				if i < len(rets) {
					v = rets[i]
				}
				inner.declare(n, v)
			}
			ctl, vals := it.execBlock(x.body, inner, fr)
			if ctl == ctlBreak {
				break
			}
			if ctl == ctlReturn {
				return ctl, vals
			}
		}
	case *returnStmt:
		if len(x.exprs) == 1 {
			// a tail call returns all its values
			return ctlReturn, it.evalMulti(x.exprs[0], sc, fr)
		}
		return ctlReturn, it.evalList(x.exprs, sc, fr, -1)
	case *breakStmt:
		return ctlBreak, nil
	default:
		it.unsupported("statement %T", s)
	}
	return ctlNone, nil
}

func describe(e expr) string {
	switch x := e.(type) {
	case *nameExpr:
		return "'" + x.name + "'"
	case *indexExpr:
		if s, ok := x.key.(*strExpr); ok {
			return "field '" + s.s + "'"
		}
		return "field '?'"
	}
	return ""
}

// operandError raises "attempt to <op> <what> (a <type> value)" like luaG_typeerror
func (it *Interp) operandError(op, what string, v Value) {
	if what == "" {
		it.rtError("attempt to %s a %s value", op, typeName(v))
	}
	it.rtError("attempt to %s %s (a %s value)", op, what, typeName(v))
}

// evalList evaluates an expression list, expanding a call / vararg in the last position.
// want >= 0 adjusts the result to exactly that many values; want < 0 keeps all.
func (it *Interp) evalList(es []expr, sc *scope, fr *frame, want int) []Value {
	var out []Value
	for i, e := range es {
		if i == len(es)-1 {
			out = append(out, it.evalMulti(e, sc, fr)...)
		} else {
			out = append(out, it.eval(e, sc, fr))
		}
	}
	if want >= 0 {
		for len(out) < want {
			out = append(out, nil)
		}
		out = out[:want]
	}
	return out
}

func (it *Interp) evalMulti(e expr, sc *scope, fr *frame) []Value {
	switch x := e.(type) {
	case *callExpr:
		return it.evalCall(x, sc, fr)
	case *varargExpr:
		if fr == nil {
			return nil
		}
		return append([]Value{}, fr.varargs...)
	}
	return []Value{it.eval(e, sc, fr)}
}

func (it *Interp) setName(name string, v Value, sc *scope) {
	if c := sc.lookup(name); c != nil {
		c.v = v
		return
	}
	// a global: Redis refuses to create globals; KEYS and ARGV may be replaced
	if name == "KEYS" || name == "ARGV" {
		it.globals[name] = v
		return
	}
	if _, ok := it.globals[name]; ok {
		it.rtError("Attempt to modify a readonly table (global '%s')", name)
	}
	it.rtError("Script attempted to create global variable '%s'", name)
}

func (it *Interp) getName(name string, sc *scope) Value {
	if c := sc.lookup(name); c != nil {
		return c.v
	}
	if v, ok := it.globals[name]; ok {
		return v
	}
	switch name {
	case "cjson", "cmsgpack", "struct", "bit", "os", "loadstring", "setmetatable", "getmetatable",
		"rawget", "rawset", "rawequal", "coroutine", "collectgarbage", "gcinfo", "setfenv", "getfenv",
		"load", "dofile", "print", "xpcall", "newproxy", "_G", "_VERSION":
		it.unsupported("library / global '%s'", name)
	}
	it.rtError("Script attempted to access nonexistent global variable '%s'", name)
	return nil
}

func (it *Interp) index(obj, key Value, what string) Value {
	switch o := obj.(type) {
	case *Table:
		return o.Get(key)
	case string:
		return it.strLib.Get(key) // strings share the `string` table as their __index
	}
	it.operandError("index", what, obj)
	return nil
}

func (it *Interp) setIndex(obj, key, v Value, what string) {
	t, ok := obj.(*Table)
	if !ok {
		it.operandError("index", what, obj)
	}
	if key == nil {
		it.rtError("table index is nil")
	}
	if f, ok := key.(float64); ok && f != f {
		it.rtError("table index is NaN")
	}
	t.Set(key, v)
}

func (it *Interp) eval(e expr, sc *scope, fr *frame) Value {
	switch x := e.(type) {
	case *nilExpr:
		return nil
	case *trueExpr:
		return true
	case *falseExpr:
		return false
	case *numExpr:
		return x.n
	case *strExpr:
		return x.s
	case *varargExpr:
		if fr == nil || len(fr.varargs) == 0 {
			return nil
		}
		return fr.varargs[0]
	case *nameExpr:
		it.line = x.line
		return it.getName(x.name, sc)
	case *parenExpr:
		return it.eval(x.x, sc, fr)
	case *indexExpr:
		obj := it.eval(x.obj, sc, fr)
		key := it.eval(x.key, sc, fr)
		it.line = x.line
		return it.index(obj, key, describe(x.obj))
	case *callExpr:
		r := it.evalCall(x, sc, fr)
		if len(r) == 0 {
			return nil
		}
		return r[0]
	case *funcExpr:
		return &Closure{fn: x, env: sc}
	case *tableExpr:
		t := NewTable()
		n := 0
		for i, f := range x.fields {
			if f.key != nil {
				k := it.eval(f.key, sc, fr)
				v := it.eval(f.val, sc, fr)
				it.line = x.line
				it.setIndex(t, k, v, "")
				continue
			}
			if i == len(x.fields)-1 {
				for _, v := range it.evalMulti(f.val, sc, fr) {
					n++
					t.Set(float64(n), v)
				}
				continue
			}
			n++
			t.Set(float64(n), it.eval(f.val, sc, fr))
		}
		return t
	case *unExpr:
		v := it.eval(x.x, sc, fr)
		it.line = x.line
		switch x.op {
		case "not":
			return !truthy(v)
		case "-":
			n, ok := toNumber(v)
			if !ok {
				it.operandError("perform arithmetic on", describe(x.x), v)
			}
			return -n
		case "#":
			switch o := v.(type) {
			case string:
				return float64(len(o))
			case *Table:
				return float64(it.tableLen(o))
			}
			it.operandError("get length of", describe(x.x), v)
		}
	case *binExpr:
		return it.binary(x, sc, fr)
	}
	it.unsupported("expression %T", e)
	return nil
}

// tableLen is `#t`. A table with holes has several borders and Lua 5.1's choice depends on the
// internal array/hash split: refused.
func (it *Interp) tableLen(t *Table) int {
	n, ok := t.Len()
	if !ok {
		it.unsupported("length / sequence operation on a table with holes (positive integer keys beyond the first nil)")
	}
	return n
}

func (it *Interp) binary(x *binExpr, sc *scope, fr *frame) Value {
	switch x.op {
	case "and":
		l := it.eval(x.l, sc, fr)
		if !truthy(l) {
			return l
		}
		return it.eval(x.r, sc, fr)
	case "or":
		l := it.eval(x.l, sc, fr)
		if truthy(l) {
			return l
		}
		return it.eval(x.r, sc, fr)
	}
	l := it.eval(x.l, sc, fr)
	r := it.eval(x.r, sc, fr)
	it.line = x.line
	switch x.op {
	case "+", "-", "*", "/", "%", "^":
		a, ok1 := toNumber(l)
		b, ok2 := toNumber(r)
		if !ok1 || !ok2 {
			bad, be := l, x.l
			if ok1 {
				bad, be = r, x.r
			}
			it.operandError("perform arithmetic on", describe(be), bad)
		}
		return arith(x.op, a, b)
	case "..":
		ls, ok1 := concatStr(l)
		rs, ok2 := concatStr(r)
		if !ok1 || !ok2 {
			bad, be := l, x.l
			if ok1 {
				bad, be = r, x.r
			}
			it.operandError("concatenate", describe(be), bad)
		}
		return ls + rs
	case "==":
		return rawEqual(l, r)
	case "~=":
		return !rawEqual(l, r)
	case "<":
		return it.less(l, r)
	case "<=":
		return it.lessEq(l, r)
	case ">":
		return it.less(r, l)
	case ">=":
		return it.lessEq(r, l)
	}
	it.unsupported("operator %s", x.op)
	return nil
}

func arith(op string, a, b float64) float64 {
	switch op {
	case "+":
		return a + b
	case "-":
		return a - b
	case "*":
		return a * b
	case "/":
		return a / b
	case "%":
		// luai_nummod: a - floor(a/b)*b (the result takes the sign of the divisor; x % 0 is NaN)
		return a - math.Floor(a/b)*b
	case "^":
		return math.Pow(a, b)
	}
	return math.NaN()
}

func concatStr(v Value) (string, bool) {
	switch x := v.(type) {
	case string:
		return x, true
	case float64:
		return fmtNumber(x), true
	}
	return "", false
}

func rawEqual(a, b Value) bool {
	switch x := a.(type) {
	case nil:
		return b == nil
	case bool:
		y, ok := b.(bool)
		return ok && x == y
	case float64:
		y, ok := b.(float64)
		return ok && x == y
	case string:
		y, ok := b.(string)
		return ok && x == y
	case *Table:
		y, ok := b.(*Table)
		return ok && x == y
	case *Closure:
		y, ok := b.(*Closure)
		return ok && x == y
	case *GoFunc:
		y, ok := b.(*GoFunc)
		return ok && x == y
	}
	return false
}

func (it *Interp) less(l, r Value) bool {
	switch a := l.(type) {
	case float64:
		if b, ok := r.(float64); ok {
			return a < b
		}
	case string:
		if b, ok := r.(string); ok {
			return strings.Compare(a, b) < 0 // strcoll in the C locale
		}
	}
	it.compareError(l, r)
	return false
}

func (it *Interp) lessEq(l, r Value) bool {
	switch a := l.(type) {
	case float64:
		if b, ok := r.(float64); ok {
			return a <= b
		}
	case string:
		if b, ok := r.(string); ok {
			return strings.Compare(a, b) <= 0
		}
	}
	it.compareError(l, r)
	return false
}

func (it *Interp) compareError(l, r Value) {
	t1, t2 := typeName(l), typeName(r)
	if t1 == t2 {
		it.rtError("attempt to compare two %s values", t1)
	}
	it.rtError("attempt to compare %s with %s", t1, t2)
}

func (it *Interp) evalCall(x *callExpr, sc *scope, fr *frame) []Value {
	var fn Value
	var args []Value
	what := describe(x.fn)
	if x.method != "" {
		obj := it.eval(x.fn, sc, fr)
		it.line = x.line
		fn = it.index(obj, x.method, describe(x.fn))
		what = "method '" + x.method + "'"
		args = append(args, obj)
	} else {
		fn = it.eval(x.fn, sc, fr)
	}
	args = append(args, it.evalList(x.args, sc, fr, -1)...)
	it.line = x.line
	return it.callValue(fn, args, what)
}

func (it *Interp) callValue(fn Value, args []Value, what string) []Value {
	it.tick()
	switch f := fn.(type) {
	case *GoFunc:
		return f.Fn(it, args)
	case *Closure:
		it.depth++
		if it.depth > 190 {
			it.rtError("stack overflow")
		}
		saved := it.line
		sc := &scope{parent: f.env}
		for i, p := range f.fn.params {
			var v Value
			if i < len(args) {
				v = args[i]
			}
			sc.declare(p, v)
		}
		fr := &frame{}
		if f.fn.isVararg && len(args) > len(f.fn.params) {
			fr.varargs = args[len(f.fn.params):]
		}
		ctl, vals := it.execBlock(f.fn.body, sc, fr)
		it.depth--
		it.line = saved
		if ctl == ctlReturn {
			return vals
		}
		return nil
	}
	it.operandError("call", what, fn)
	return nil
}
