// Package luamini is a small interpreter for the subset of Lua 5.1 that the server-side scripts of
// the rueidis add-on modules (rueidisprob, rueidislimiter, rueidislock, rueidisaside, om) are
// written in, plus the Redis scripting conventions around it (KEYS / ARGV, redis.call / redis.pcall,
// conversion between RESP replies and Lua values in both directions).
//
// It exists so that the in-process fake servers of /verif can execute a script whose text they do not
// know (somebody edited it in the repository) instead of refusing it. Scripts whose text is known
// never run through it: they run through hand-written Go transcriptions that are validated against
// Lean models, and luamini itself is validated differentially against those transcriptions.
//
// Anything outside the subset fails loudly: Compile returns a *SyntaxError, Run answers an error
// reply starting with "ERR luamini: unsupported".
package luamini

import (
	"fmt"
	"math"
	"strconv"
	"strings"
)

// Reply is a RESP2 reply.
type Reply struct {
	Kind byte // '_' nil, ':' integer, '$' bulk string, '+' status, '-' error, '*' array
	Int  int64
	Str  string
	Arr  []Reply
}

func Nil() Reply              { return Reply{Kind: '_'} }
func Int(n int64) Reply       { return Reply{Kind: ':', Int: n} }
func Bulk(s string) Reply     { return Reply{Kind: '$', Str: s} }
func Status(s string) Reply   { return Reply{Kind: '+', Str: s} }
func Error(s string) Reply    { return Reply{Kind: '-', Str: s} }
func Array(a ...Reply) Reply  { return Reply{Kind: '*', Arr: a} }
func (r Reply) IsError() bool { return r.Kind == '-' }

func (r Reply) String() string {
	switch r.Kind {
	case '_':
		return "_"
	case ':':
		return ":" + strconv.FormatInt(r.Int, 10)
	case '$':
		return "$" + strconv.Quote(r.Str)
	case '+':
		return "+" + r.Str
	case '-':
		return "-" + r.Str
	}
	p := make([]string, len(r.Arr))
	for i, e := range r.Arr {
		p[i] = e.String()
	}
	return "*[" + strings.Join(p, ",") + "]"
}

// CallFunc executes one Redis command issued by the script (redis.call / redis.pcall): args[0] is
// the command name exactly as the script wrote it. An error is answered as a Reply of Kind '-'.
type CallFunc func(args []string) Reply

// Options of a run.
type Options struct {
	// StepBudget bounds the number of statements / loop iterations / calls (0: 5,000,000). A script
	// that exceeds it is stopped with an error reply (the analogue of a busy script being killed).
	StepBudget int
}

// Stats of a run.
type Stats struct {
	Steps       int
	Unsupported bool // the error reply is a refusal of the interpreter, not an error of the script
}

// replyToLua: redis.call's conversion of a reply to a Lua value (RESP2 rules of Redis' script_lua.c)
func replyToLua(r Reply) Value {
	switch r.Kind {
	case ':':
		return float64(r.Int)
	case '$':
		return r.Str
	case '_':
		return false
	case '+':
		t := NewTable()
		t.Set("ok", r.Str)
		return t
	case '-':
		t := NewTable()
		t.Set("err", r.Str)
		return t
	case '*':
		t := NewTable()
		for i, e := range r.Arr {
			t.Set(float64(i+1), replyToLua(e))
		}
		return t
	}
	return false
}

// luaToReply: conversion of the script's return value to a reply (luaReplyToRedisReply, RESP2):
// number -> integer (truncated), string -> bulk, true -> 1, false / nil -> nil, a table with an
// `err` (resp. `ok`) string field -> error (resp. status), any other table -> array of t[1], t[2], …
// up to the first nil.
func (it *Interp) luaToReply(v Value, depth int) Reply {
	if depth > 100 {
		return Error("ERR reached lua stack limit")
	}
	switch x := v.(type) {
	case nil:
		return Nil()
	case bool:
		if x {
			return Int(1)
		}
		return Nil()
	case float64:
		return Int(truncToInt64(x))
	case string:
		return Bulk(x)
	case *Table:
		if s, ok := x.GetStr("err").(string); ok {
			return Error(s)
		}
		if s, ok := x.GetStr("ok").(string); ok {
			return Status(s)
		}
		for _, k := range []string{"double", "map", "set", "big_number", "verbatim_string"} {
			if x.GetStr(k) != nil {
				it.unsupported("RESP3 reply table with field '%s'", k)
			}
		}
		out := []Reply{}
		for i := 1; ; i++ {
			e := x.Get(float64(i))
			if e == nil {
				break
			}
			out = append(out, it.luaToReply(e, depth+1))
		}
		return Array(out...)
	}
	return Nil() // functions: nil
}

// truncToInt64 is C's (long long)double on x86-64: truncation towards zero; out of range, NaN and
// infinities give the "integer indefinite" value.
func truncToInt64(f float64) int64 {
	if f != f || f >= 9223372036854775808.0 || f < -9223372036854775808.0 {
		return math.MinInt64
	}
	return int64(f)
}

// argToString: how redis.call renders an argument (luaArgsToRedisArgv): strings as they are,
// numbers as integers when they are integral and small enough, else with 17 significant digits.
func argToString(v Value) (string, bool) {
	switch x := v.(type) {
	case string:
		return x, true
	case float64:
		if x == math.Floor(x) && x >= -4611686018427387903 && x <= 4611686018427387903 {
			return strconv.FormatInt(int64(x), 10), true
		}
		switch {
		case x != x:
			return "nan", true
		case math.IsInf(x, 1):
			return "inf", true
		case math.IsInf(x, -1):
			return "-inf", true
		}
		return strconv.FormatFloat(x, 'g', 17, 64), true
	}
	return "", false
}

func (it *Interp) redisCall(name string, raise bool, args []Value) []Value {
	if len(args) == 0 {
		it.rtError("Please specify at least one argument for this redis lib call")
	}
	argv := make([]string, len(args))
	for i, a := range args {
		s, ok := argToString(a)
		if !ok {
			it.rtError("Lua redis lib command arguments must be strings or integers")
		}
		argv[i] = s
	}
	if it.call == nil {
		it.unsupported("%s without a command callback", name)
	}
	r := it.call(argv)
	if r.Kind == '-' && raise {
		t := NewTable()
		t.Set("err", r.Str)
		panic(&LuaError{Value: t})
	}
	return []Value{replyToLua(r)}
}

// Run executes the program with the given KEYS and ARGV and converts what it returns to a reply.
// An uncaught Lua error becomes an error reply: the reply of the failed command for redis.call,
// "ERR user_script:<line>: <message>" for a runtime fault, "ERR luamini: unsupported …" for a refusal.
func (p *Program) Run(keys, argv []string, call CallFunc, opt *Options) (rep Reply, st Stats) {
	it := &Interp{call: call, budget: 5_000_000}
	if opt != nil && opt.StepBudget > 0 {
		it.budget = opt.StepBudget
	}
	it.globals = it.stdlib()
	kt, at := NewTable(), NewTable()
	for i, k := range keys {
		kt.Set(float64(i+1), k)
	}
	for i, a := range argv {
		at.Set(float64(i+1), a)
	}
	it.globals["KEYS"] = kt
	it.globals["ARGV"] = at
	defer func() {
		st.Steps = it.steps
		if r := recover(); r != nil {
			le, ok := r.(*LuaError)
			if !ok {
				panic(r)
			}
			st.Unsupported = le.Unsupported
			rep = errorReply(le)
		}
	}()
	ctl, vals := it.execBlock(p.body, &scope{}, &frame{})
	if ctl != ctlReturn || len(vals) == 0 {
		return Nil(), st
	}
	return it.luaToReply(vals[0], 0), st
}

func errorReply(le *LuaError) Reply {
	if t, ok := le.Value.(*Table); ok {
		if s, ok := t.GetStr("err").(string); ok {
			return Error(s)
		}
	}
	switch v := le.Value.(type) {
	case string:
		return Error("ERR " + v)
	case float64:
		return Error("ERR " + fmtNumber(v))
	}
	return Error(fmt.Sprintf("ERR (error object is a %s value)", typeName(le.Value)))
}

// Eval compiles and runs a script: the answer of EVAL script numkeys keys… args…
func Eval(script string, keys, argv []string, call CallFunc) Reply {
	p, err := Compile(script)
	if err != nil {
		return Error("ERR " + err.Error())
	}
	r, _ := p.Run(keys, argv, call, nil)
	return r
}
