package fakeredis

import (
	"fmt"
	"sort"
	"strconv"
	"strings"
	"time"
)

const ok = Status("OK")

func arity(name string) []any {
	return []any{Err("ERR wrong number of arguments for '" + strings.ToLower(name) + "' command")}
}

func one(v any) []any { return []any{v} }

// arities: minimum argc (incl. the name); negative: exact. Also the list of known commands.
var arities = map[string]int{
	"PING": 1, "ECHO": -2, "QUIT": 1, "HELLO": 1, "AUTH": 2, "SELECT": -2, "CLIENT": 2, "READONLY": -1, "READWRITE": -1,
	"ROLE": -1, "INFO": 1, "CLUSTER": 2, "FAKE.ID": 1, "GET": -2, "SET": 3, "DEL": 2, "INCR": -2, "MGET": 2, "PTTL": -2, "PEXPIRE": -3,
	"EXISTS": 2, "HSET": 4, "HGET": -3, "HGETALL": -2, "FLUSHALL": 1, "FLUSHDB": 1, "MULTI": -1, "EXEC": -1, "DISCARD": -1,
	"WATCH": 2, "UNWATCH": -1, "SUBSCRIBE": 2, "UNSUBSCRIBE": 1, "PSUBSCRIBE": 2, "PUNSUBSCRIBE": 1, "SSUBSCRIBE": 2,
	"SUNSUBSCRIBE": 1, "PUBLISH": -3, "SPUBLISH": -3,
}

var subKinds = map[string]int{"SUBSCRIBE": 0, "UNSUBSCRIBE": 0, "PSUBSCRIBE": 1, "PUNSUBSCRIBE": 1, "SSUBSCRIBE": 2, "SUNSUBSCRIBE": 2}

func (s *Server) dispatch(c *conn, argv []string) []any {
	name := strings.ToUpper(argv[0])
	if !c.Authed && name != "HELLO" && name != "AUTH" && name != "QUIT" {
		return one(Err("NOAUTH Authentication required."))
	}
	n, known := arities[name]
	bad := known && (n < 0 && len(argv) != -n || n > 0 && len(argv) < n)
	if _, sub := subKinds[name]; c.Proto < 3 && len(c.subs[0])+len(c.subs[1])+len(c.subs[2]) > 0 && !sub && name != "PING" && name != "QUIT" {
		return one(Err("ERR Can't execute '" + strings.ToLower(name) + "': only (P|S)SUBSCRIBE / (P|S)UNSUBSCRIBE / PING / QUIT / RESET are allowed in this context"))
	}
	if c.InMulti && name != "EXEC" && name != "DISCARD" && name != "MULTI" && name != "WATCH" && name != "QUIT" {
		_, sub := subKinds[name]
		switch {
		case !known:
			c.dirty = true
			return one(unknown(argv))
		case bad:
			c.dirty = true
			return arity(name)
		case sub:
			c.dirty = true
			return one(Err("ERR fakeredis: Pub/Sub commands inside MULTI are not supported"))
		}
		c.queued = append(c.queued, argv)
		return one(Status("QUEUED"))
	}
	if !known {
		return one(unknown(argv))
	}
	if bad {
		return arity(name)
	}
	return s.run(c, name, argv)
}

func unknown(argv []string) Err {
	args := ""
	for _, a := range argv[1:] {
		args += "'" + a + "' "
	}
	return Err("ERR unknown command '" + argv[0] + "', with args beginning with: " + args)
}

func (s *Server) run(c *conn, name string, argv []string) []any {
	a := argv[1:]
	switch name {
	case "PING":
		if c.Proto < 3 && len(c.subs[0])+len(c.subs[1])+len(c.subs[2]) > 0 {
			return one([]any{"pong", strings.Join(a, "")})
		}
		if len(a) > 0 {
			return one(a[0])
		}
		return one(Status("PONG"))
	case "ECHO":
		return one(a[0])
	case "QUIT":
		return one(ok)
	case "FAKE.ID":
		return one(fmt.Sprintf("%d:%d:%s", c.ID, s.cur, strings.Join(a, " ")))
	case "HELLO":
		return one(s.hello(c, a))
	case "AUTH":
		user, pass := "default", a[0]
		if len(a) >= 2 {
			user, pass = a[0], a[1]
		}
		return one(s.auth(c, user, pass, len(a) == 1))
	case "SELECT":
		n, err := strconv.Atoi(a[0])
		if err != nil {
			return one(Err("ERR invalid DB index"))
		}
		if n < 0 || n > 15 {
			return one(Err("ERR DB index is out of range"))
		}
		c.DB = n
		return one(ok)
	case "READONLY":
		c.ReadOnly = true
		return one(ok)
	case "READWRITE":
		c.ReadOnly = false
		return one(ok)
	case "ROLE":
		switch s.opt.Role {
		case "slave":
			return one([]any{"slave", "127.0.0.1", 6379, "connected", 0})
		case "sentinel":
			return one([]any{"sentinel", []any{}})
		}
		return one([]any{"master", 0, []any{}})
	case "INFO":
		txt := "# Server\r\nredis_version:" + s.opt.Version + "\r\n"
		if s.opt.AZ != "" {
			txt += "availability_zone:" + s.opt.AZ + "\r\n"
		}
		return one(txt)
	case "CLUSTER":
		if s.opt.Cluster && strings.EqualFold(a[0], "SLOTS") {
			return one([]any{[]any{0, 16383, []any{"127.0.0.1", 6379, "fakenode0000000000000000000000000000000000"}}})
		}
		return one(Err("ERR This instance has cluster support disabled"))
	case "CLIENT":
		return one(s.client(c, a))
	case "MULTI":
		if c.InMulti {
			return one(Err("ERR MULTI calls can not be nested"))
		}
		c.InMulti, c.queued, c.dirty = true, nil, false
		return one(ok)
	case "DISCARD":
		if !c.InMulti {
			return one(Err("ERR DISCARD without MULTI"))
		}
		c.InMulti, c.queued, c.watch = false, nil, map[string]uint64{}
		return one(ok)
	case "WATCH":
		if c.InMulti {
			return one(Err("ERR WATCH inside MULTI is not allowed"))
		}
		for _, k := range a {
			s.lookup(c.DB, k)
			if _, seen := c.watch[dbkey(c.DB, k)]; !seen {
				c.watch[dbkey(c.DB, k)] = s.ver[dbkey(c.DB, k)]
			}
		}
		return one(ok)
	case "UNWATCH":
		c.watch = map[string]uint64{}
		return one(ok)
	case "EXEC":
		if !c.InMulti {
			return one(Err("ERR EXEC without MULTI"))
		}
		q, dirty, w := c.queued, c.dirty, c.watch
		c.queued, c.dirty, c.watch = nil, false, map[string]uint64{}
		if c.InMulti = false; dirty {
			return one(Err("EXECABORT Transaction discarded because of previous errors."))
		}
		for _, k := range keys(w) {
			v := w[k]
			db, _ := strconv.Atoi(k[:strings.IndexByte(k, ':')])
			s.lookup(db, k[strings.IndexByte(k, ':')+1:])
			if s.ver[k] != v {
				return one(NullArray{})
			}
		}
		res := make([]any, 0, len(q))
		for _, cmd := range q {
			c.InMulti = true // keeps the CACHING flag alive, as in Redis
			fs := s.run(c, strings.ToUpper(cmd[0]), cmd)
			c.InMulti = false
			res = append(res, fs[0])
		}
		return one(res)
	case "PUBLISH", "SPUBLISH":
		return one(s.publish(a[0], a[1], name == "SPUBLISH"))
	}
	if k, sub := subKinds[name]; sub {
		return s.subscribe(c, strings.ToLower(name), k, a, strings.Contains(name, "UN"))
	}
	return one(s.keyspace(c, name, a))
}

func (s *Server) hello(c *conn, a []string) any {
	if s.opt.RejectHello {
		return unknown(append([]string{"HELLO"}, a...))
	}
	proto := c.Proto
	if len(a) > 0 {
		n, err := strconv.Atoi(a[0])
		if err != nil || n < 2 || n > 3 {
			return Err("NOPROTO unsupported protocol version")
		}
		proto = n
	}
	name, setname := "", false
	for i := 1; i < len(a); {
		switch {
		case strings.EqualFold(a[i], "AUTH") && i+2 < len(a):
			if e, bad := s.auth(c, a[i+1], a[i+2], false).(Err); bad {
				return e
			}
			i += 3
		case strings.EqualFold(a[i], "SETNAME") && i+1 < len(a):
			name, setname = a[i+1], true
			i += 2
		default:
			return Err("ERR Syntax error in HELLO option '" + a[i] + "'")
		}
	}
	if !c.Authed {
		return Err("NOAUTH HELLO must be called with the client already authenticated, otherwise the HELLO <proto> AUTH <user> <pass> option can be used to authenticate the client and select the RESP protocol version at the same time")
	}
	if setname {
		if strings.ContainsAny(name, " \n") {
			return Err("ERR Client names cannot contain spaces, newlines or special characters.")
		}
		c.Name = name
	}
	c.Proto = proto
	role := s.opt.Role
	if role == "slave" {
		role = "replica"
	}
	return Map{"server", "redis", "version", s.opt.Version, "proto", proto, "id", c.ID, "mode", "standalone", "role", role,
		"modules", []any{}, "cmdid", int64(s.cur)}
}

func (s *Server) auth(c *conn, user, pass string, short bool) any {
	want, exists := s.opt.Users[user]
	if short && want == "" {
		return Err("ERR AUTH <password> called without any password configured for the default user. Are you sure your configuration is correct?")
	}
	if (!exists && user != "default") || want != pass && want != "" {
		return Err("WRONGPASS invalid username-password pair or user is disabled.")
	}
	c.User, c.Authed = user, true
	return ok
}

func onoff(c *conn, a []string, what string, dst *bool) any {
	if len(a) != 2 || !strings.EqualFold(a[1], "ON") && !strings.EqualFold(a[1], "OFF") {
		return Err("ERR syntax error")
	}
	*dst = strings.EqualFold(a[1], "ON")
	return ok
}

func (s *Server) client(c *conn, a []string) any {
	switch sub := strings.ToUpper(a[0]); sub {
	case "ID":
		return c.ID
	case "GETNAME":
		if c.Name == "" {
			return nil
		}
		return c.Name
	case "SETNAME":
		if len(a) != 2 {
			return Err("ERR syntax error")
		}
		if strings.ContainsAny(a[1], " \n") {
			return Err("ERR Client names cannot contain spaces, newlines or special characters.")
		}
		c.Name = a[1]
		return ok
	case "SETINFO":
		if len(a) != 3 {
			return Err("ERR syntax error")
		}
		switch strings.ToUpper(a[1]) {
		case "LIB-NAME":
			c.LibName = a[2]
		case "LIB-VER":
			c.LibVer = a[2]
		default:
			return Err("ERR Unrecognized option '" + a[1] + "'")
		}
		return ok
	case "NO-TOUCH":
		return onoff(c, a, sub, &c.NoTouch)
	case "NO-EVICT":
		return onoff(c, a, sub, &c.NoEvict)
	case "CAPA":
		return ok
	case "CACHING":
		if len(a) != 2 {
			return Err("ERR syntax error")
		}
		switch {
		case strings.EqualFold(a[1], "YES") && c.Tracking && c.OptIn:
			c.caching = 1
		case strings.EqualFold(a[1], "NO") && c.Tracking && c.OptOut:
			c.caching = -1
		case strings.EqualFold(a[1], "YES"):
			return Err("ERR CLIENT CACHING YES is only valid when tracking is enabled in OPTIN mode.")
		case strings.EqualFold(a[1], "NO"):
			return Err("ERR CLIENT CACHING NO is only valid when tracking is enabled in OPTOUT mode.")
		default:
			return Err("ERR syntax error")
		}
		return ok
	case "TRACKING":
		if len(a) < 2 {
			return Err("ERR syntax error")
		}
		var t ConnInfo
		for i := 2; i < len(a); i++ {
			switch o := strings.ToUpper(a[i]); {
			case o == "OPTIN":
				t.OptIn = true
			case o == "OPTOUT":
				t.OptOut = true
			case o == "BCAST":
				t.BCast = true
			case o == "NOLOOP":
				t.NoLoop = true
			case o == "PREFIX" && i+1 < len(a):
				i++
				t.Prefixes = append(t.Prefixes, a[i])
			case o == "REDIRECT":
				return Err("ERR fakeredis: REDIRECT is not supported")
			default:
				return Err("ERR syntax error")
			}
		}
		switch {
		case strings.EqualFold(a[1], "OFF"):
			for _, m := range s.track {
				delete(m, c.ID)
			}
			c.Tracking, c.OptIn, c.OptOut, c.BCast, c.NoLoop, c.Prefixes, c.caching = false, false, false, false, false, nil, 0
			return ok
		case !strings.EqualFold(a[1], "ON"):
			return Err("ERR syntax error")
		case len(t.Prefixes) > 0 && !t.BCast:
			return Err("ERR PREFIX option requires BCAST mode to be enabled")
		case t.OptIn && t.OptOut:
			return Err("ERR You can't specify both OPTIN mode and OPTOUT mode")
		case t.BCast && (t.OptIn || t.OptOut):
			return Err("ERR OPTIN and OPTOUT are not compatible with BCAST")
		case c.Tracking && c.BCast != t.BCast:
			return Err("ERR You can't switch BCAST mode on/off before disabling tracking for this client, and then re-enabling it with a different mode.")
		case c.Tracking && (c.OptIn && t.OptOut || c.OptOut && t.OptIn):
			return Err("ERR You can't switch OPTIN/OPTOUT mode before disabling tracking for this client, and then re-enabling it with a different mode.")
		}
		c.Tracking, c.OptIn, c.OptOut, c.BCast, c.NoLoop = true, t.OptIn, t.OptOut, t.BCast, t.NoLoop
		c.Prefixes = append(c.Prefixes, t.Prefixes...)
		return ok
	}
	return Err("ERR unknown subcommand '" + a[0] + "'. Try CLIENT HELP.")
}

// ---------------------------------------------------------------- Pub/Sub

var msgKinds = [3]string{"message", "pmessage", "smessage"}

func (s *Server) subscribe(c *conn, kind string, k int, chans []string, un bool) (frames []any) {
	count := func() int {
		if k == 2 {
			return len(c.subs[2])
		}
		return len(c.subs[0]) + len(c.subs[1])
	}
	if un && len(chans) == 0 {
		if chans = keys(c.subs[k]); len(chans) == 0 {
			return one(Push{kind, nil, count()})
		}
	}
	for _, ch := range chans {
		if un {
			delete(c.subs[k], ch)
		} else {
			c.subs[k][ch] = struct{}{}
		}
		frames = append(frames, Push{kind, ch, count()})
	}
	return frames
}

func (s *Server) publish(ch, payload string, shard bool) int {
	n := 0
	for _, t := range s.conns {
		if t.Closed {
			continue
		}
		if shard {
			if _, yes := t.subs[2][ch]; yes {
				s.push(t, "smessage", false, ch, payload)
				n++
			}
			continue
		}
		if _, yes := t.subs[0][ch]; yes {
			s.push(t, "message", false, ch, payload)
			n++
		}
		for _, p := range keys(t.subs[1]) {
			if Glob(p, ch) {
				s.push(t, "pmessage", false, p, ch, payload)
				n++
			}
		}
	}
	return n
}

// Glob implements Redis' stringmatchlen for * ? [set] [^set] [a-z] and \x.
func Glob(p, s string) bool {
	for len(p) > 0 {
		switch p[0] {
		case '*':
			for len(p) > 1 && p[1] == '*' {
				p = p[1:]
			}
			if len(p) == 1 {
				return true
			}
			for i := 0; i <= len(s); i++ {
				if Glob(p[1:], s[i:]) {
					return true
				}
			}
			return false
		case '?':
			if len(s) == 0 {
				return false
			}
		case '[':
			if len(s) == 0 {
				return false
			}
			i, not, hit := 1, false, false
			if i < len(p) && p[i] == '^' {
				not, i = true, i+1
			}
			for ; i < len(p) && p[i] != ']'; i++ {
				if p[i] == '\\' && i+1 < len(p) {
					i++
					hit = hit || p[i] == s[0]
				} else if i+2 < len(p) && p[i+1] == '-' && p[i+2] != ']' {
					lo, hi := p[i], p[i+2]
					if lo > hi {
						lo, hi = hi, lo
					}
					hit = hit || lo <= s[0] && s[0] <= hi
					i += 2
				} else {
					hit = hit || p[i] == s[0]
				}
			}
			if hit == not {
				return false
			}
			if i >= len(p) {
				i = len(p) - 1
			}
			p = p[i:]
		case '\\':
			if len(p) > 1 {
				p = p[1:]
			}
			fallthrough
		default:
			if len(s) == 0 || p[0] != s[0] {
				return false
			}
		}
		p, s = p[1:], s[1:]
	}
	return len(s) == 0
}

// ---------------------------------------------------------------- keyspace and tracking

func dbkey(db int, k string) string { return strconv.Itoa(db) + ":" + k }

// lookup returns the live value of a key, expiring it lazily.
func (s *Server) lookup(db int, k string) *val {
	v := s.dbs[db][k]
	if v != nil && !v.exp.IsZero() && !v.exp.After(s.now) {
		delete(s.dbs[db], k)
		s.touch(db, k)
		return nil
	}
	return v
}

func (s *Server) store(db int, k string, v *val) {
	if s.dbs[db] == nil {
		s.dbs[db] = map[string]*val{}
	}
	s.dbs[db][k] = v
	s.touch(db, k)
}

// touch records a modification: WATCH version bump and invalidation.
func (s *Server) touch(db int, k string) {
	s.ver[dbkey(db, k)]++
	w := s.curConn
	ids := make([]int, 0, len(s.track[k]))
	for id := range s.track[k] {
		ids = append(ids, id)
	}
	sort.Ints(ids)
	delete(s.track, k)
	for _, id := range ids {
		t := s.conns[id-1]
		if !t.Tracking || t == w && t.NoLoop {
			continue
		}
		if t == w && s.opt.InvalidateAfterReply {
			s.defer_ = append(s.defer_, func() { s.push(t, "invalidate", false, k) })
		} else {
			s.push(t, "invalidate", false, k)
		}
	}
	for _, t := range s.conns {
		if !t.Tracking || !t.BCast || t == w && t.NoLoop {
			continue
		}
		hit := len(t.Prefixes) == 0
		for _, p := range t.Prefixes {
			hit = hit || strings.HasPrefix(k, p)
		}
		if hit {
			s.defer_ = append(s.defer_, func() { s.push(t, "invalidate", false, k) })
		}
	}
	if w == nil { // clock-driven: nothing to wait for
		for _, f := range s.defer_ {
			f()
		}
		s.defer_ = nil
	}
}

func (s *Server) remember(c *conn, ks ...string) {
	if !c.Tracking || c.BCast || c.OptIn && c.caching != 1 || c.OptOut && c.caching == -1 {
		return
	}
	for _, k := range ks {
		if s.track[k] == nil {
			s.track[k] = map[int]struct{}{}
		}
		s.track[k][c.ID] = struct{}{}
	}
}

func (s *Server) expireAll() {
	dbs := make([]int, 0, len(s.dbs))
	for db := range s.dbs {
		dbs = append(dbs, db)
	}
	sort.Ints(dbs)
	for _, db := range dbs {
		for _, k := range keys(s.dbs[db]) {
			s.lookup(db, k)
		}
	}
}

const wrongType = Err("WRONGTYPE Operation against a key holding the wrong kind of value")

func (s *Server) keyspace(c *conn, name string, a []string) any {
	db := c.DB
	str := func(k string) (v *val, e any) {
		if v = s.lookup(db, k); v != nil && v.h != nil {
			return nil, wrongType
		}
		return v, nil
	}
	switch name {
	case "GET":
		s.remember(c, a[0])
		v, e := str(a[0])
		if e != nil || v == nil {
			return e
		}
		return v.s
	case "MGET":
		s.remember(c, a...)
		res := make([]any, len(a))
		for i, k := range a {
			if v, _ := str(k); v != nil {
				res[i] = v.s
			}
		}
		return res
	case "EXISTS":
		s.remember(c, a...)
		n := 0
		for _, k := range a {
			if s.lookup(db, k) != nil {
				n++
			}
		}
		return n
	case "PTTL":
		s.remember(c, a[0])
		v := s.lookup(db, a[0])
		switch {
		case v == nil:
			return -2
		case v.exp.IsZero():
			return -1
		}
		return v.exp.Sub(s.now).Milliseconds()
	case "SET":
		nv := &val{s: a[1]}
		nx, xx := false, false
		for i := 2; i < len(a); i++ {
			o := strings.ToUpper(a[i])
			switch {
			case o == "NX":
				nx = true
			case o == "XX":
				xx = true
			case (o == "EX" || o == "PX") && i+1 < len(a):
				n, err := strconv.ParseInt(a[i+1], 10, 64)
				if err != nil || n <= 0 {
					return Err("ERR invalid expire time in 'set' command")
				}
				if nv.exp = s.now.Add(time.Duration(n) * time.Millisecond); o == "EX" {
					nv.exp = s.now.Add(time.Duration(n) * time.Second)
				}
				i++
			default:
				return Err("ERR syntax error")
			}
		}
		if old := s.lookup(db, a[0]); nx && old != nil || xx && old == nil {
			return nil
		}
		s.store(db, a[0], nv)
		return ok
	case "DEL":
		n := 0
		for _, k := range a {
			if s.lookup(db, k) != nil {
				delete(s.dbs[db], k)
				s.touch(db, k)
				n++
			}
		}
		return n
	case "INCR":
		v, e := str(a[0])
		if e != nil {
			return e
		}
		nv := &val{s: "0"}
		if v != nil {
			nv = &val{s: v.s, exp: v.exp}
		}
		n, err := strconv.ParseInt(nv.s, 10, 64)
		if err != nil {
			return Err("ERR value is not an integer or out of range")
		}
		nv.s = strconv.FormatInt(n+1, 10)
		s.store(db, a[0], nv)
		return n + 1
	case "PEXPIRE":
		n, err := strconv.ParseInt(a[1], 10, 64)
		if err != nil {
			return Err("ERR value is not an integer or out of range")
		}
		v := s.lookup(db, a[0])
		if v == nil {
			return 0
		}
		nv := *v
		nv.exp = s.now.Add(time.Duration(n) * time.Millisecond)
		s.store(db, a[0], &nv)
		s.lookup(db, a[0]) // a non-positive ttl deletes at once
		return 1
	case "HSET":
		if len(a)%2 != 1 {
			return arity(name)[0]
		}
		v := s.lookup(db, a[0])
		if v != nil && v.h == nil {
			return wrongType
		}
		nv := &val{h: map[string]string{}}
		if v != nil {
			nv.exp = v.exp
			for f, x := range v.h {
				nv.h[f] = x
			}
		}
		n := 0
		for i := 1; i < len(a); i += 2 {
			if _, had := nv.h[a[i]]; !had {
				n++
			}
			nv.h[a[i]] = a[i+1]
		}
		s.store(db, a[0], nv)
		return n
	case "HGET", "HGETALL":
		s.remember(c, a[0])
		v := s.lookup(db, a[0])
		if v != nil && v.h == nil {
			return wrongType
		}
		if name == "HGET" {
			if v != nil {
				if y, yes := v.h[a[1]]; yes {
					return y
				}
			}
			return nil
		}
		m := Map{}
		if v != nil {
			for _, f := range keys(v.h) {
				m = append(m, f, v.h[f])
			}
		}
		return m
	case "FLUSHALL", "FLUSHDB":
		for d := range s.dbs {
			if name == "FLUSHALL" || d == db {
				for _, k := range keys(s.dbs[d]) {
					s.ver[dbkey(d, k)]++
				}
				delete(s.dbs, d)
			}
		}
		s.track = map[string]map[int]struct{}{}
		for _, t := range s.conns {
			if t.Tracking {
				s.push(t, "invalidate", true)
			}
		}
		return ok
	}
	return unknown(append([]string{name}, a...))
}
