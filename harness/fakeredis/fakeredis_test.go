package fakeredis

import (
	"bufio"
	"context"
	"fmt"
	"io"
	"net"
	"reflect"
	"strconv"
	"strings"
	"sync"
	"testing"
	"time"
)

// tc is a minimal RESP client: do() writes a command and reads one frame.
type tc struct {
	t  *testing.T
	nc net.Conn
	r  *bufio.Reader
}

func dial(t *testing.T, s *Server) *tc {
	nc, err := s.Dial(context.Background(), "x:1", nil, nil)
	if err != nil {
		t.Fatal(err)
	}
	return &tc{t, nc, bufio.NewReader(nc)}
}

func (c *tc) send(args ...string) {
	var b strings.Builder
	fmt.Fprintf(&b, "*%d\r\n", len(args))
	for _, a := range args {
		fmt.Fprintf(&b, "$%d\r\n%s\r\n", len(a), a)
	}
	if _, err := c.nc.Write([]byte(b.String())); err != nil {
		c.t.Fatalf("write: %v", err)
	}
}

// read returns a frame rendered as text: +x -x :n "bulk" _ [a b] %[k v] >[...]
func (c *tc) read() string {
	c.nc.SetReadDeadline(time.Now().Add(2 * time.Second))
	l, err := c.r.ReadString('\n')
	if err != nil {
		return "EOF:" + err.Error()
	}
	l = strings.TrimSuffix(l, "\r\n")
	switch l[0] {
	case '+', '-', ':':
		return l
	case '_':
		return "_"
	case '$':
		n, _ := strconv.Atoi(l[1:])
		if n < 0 {
			return "_"
		}
		buf := make([]byte, n+2)
		if _, err := io.ReadFull(c.r, buf); err != nil {
			return "EOF:" + err.Error()
		}
		return strconv.Quote(string(buf[:n]))
	case '*', '>', '%':
		n, _ := strconv.Atoi(l[1:])
		if n < 0 {
			return "_"
		}
		if l[0] == '%' {
			n *= 2
		}
		parts := make([]string, n)
		for i := range parts {
			parts[i] = c.read()
		}
		return strings.TrimPrefix(string(l[0]), "*") + "[" + strings.Join(parts, " ") + "]"
	}
	return "?" + l
}

func (c *tc) do(args ...string) string { c.send(args...); return c.read() }

func expect(t *testing.T, got, want string) {
	t.Helper()
	if got != want {
		t.Fatalf("got %s want %s", got, want)
	}
}

func TestSessionAndKeyspace(t *testing.T) {
	s := New(Options{Users: map[string]string{"default": "pw", "bob": "b"}})
	c := dial(t, s)
	expect(t, c.do("GET", "k"), "-NOAUTH Authentication required.")
	if r := c.do("HELLO", "3"); !strings.HasPrefix(r, "-NOAUTH HELLO") {
		t.Fatal(r)
	}
	expect(t, c.do("HELLO", "3", "AUTH", "bob", "x"), "-WRONGPASS invalid username-password pair or user is disabled.")
	if r := c.do("HELLO", "3", "AUTH", "bob", "b", "SETNAME", "nm"); !strings.HasPrefix(r, `%["server" "redis" "version" "7.2.0" "proto" :3 "id" :1`) {
		t.Fatal(r)
	}
	expect(t, c.do("SELECT", "3"), "+OK")
	expect(t, c.do("SELECT", "16"), "-ERR DB index is out of range")
	expect(t, c.do("CLIENT", "SETINFO", "LIB-NAME", "l"), "+OK")
	expect(t, c.do("CLIENT", "NO-TOUCH", "ON"), "+OK")
	expect(t, c.do("READONLY"), "+OK")
	ci, _ := s.Conn(1)
	if ci.User != "bob" || ci.Name != "nm" || ci.DB != 3 || ci.Proto != 3 || ci.LibName != "l" || !ci.NoTouch || !ci.ReadOnly || ci.NoEvict {
		t.Fatalf("%+v", ci)
	}
	expect(t, c.do("SET", "k", "v", "PX", "100"), "+OK")
	expect(t, c.do("PTTL", "k"), ":100")
	expect(t, c.do("GET", "k"), `"v"`)
	s.Advance(100 * time.Millisecond)
	expect(t, c.do("GET", "k"), "_")
	expect(t, c.do("PTTL", "k"), ":-2")
	expect(t, c.do("INCR", "n"), ":1")
	expect(t, c.do("INCR", "n"), ":2")
	expect(t, c.do("HSET", "h", "b", "2", "a", "1"), ":2")
	expect(t, c.do("HGETALL", "h"), `%["a" "1" "b" "2"]`)
	expect(t, c.do("HGET", "h", "zz"), "_")
	expect(t, c.do("GET", "h"), "-WRONGTYPE Operation against a key holding the wrong kind of value")
	expect(t, c.do("MGET", "n", "zz"), `["2" _]`)
	expect(t, c.do("EXISTS", "n", "h", "zz"), ":2")
	expect(t, c.do("DEL", "n", "zz"), ":1")
	expect(t, c.do("NOPE", "a"), "-ERR unknown command 'NOPE', with args beginning with: 'a' ")
	expect(t, c.do("FAKE.ID", "x"), fmt.Sprintf("\"1:%d:x\"", len(s.Log())))
	expect(t, c.do("ROLE"), `["master" :0 []]`)
	expect(t, c.do("QUIT"), "+OK")
	if r := c.read(); !strings.HasPrefix(r, "EOF") {
		t.Fatal(r)
	}
	s.Close()
}

func TestHelloRejectAndResp2(t *testing.T) {
	s := New(Options{RejectHello: true, Users: map[string]string{"default": "pw"}})
	defer s.Close()
	c := dial(t, s)
	expect(t, c.do("HELLO", "3", "AUTH", "default", "pw"), "-ERR unknown command 'HELLO', with args beginning with: '3' 'AUTH' 'default' 'pw' ")
	expect(t, c.do("AUTH", "pw"), "+OK")
	expect(t, c.do("HGETALL", "h"), "[]")
	expect(t, c.do("GET", "h"), "_")
	s.SetOptions(func(o *Options) { o.RejectHello = false })
	expect(t, c.do("HELLO", "2")[:10], `["server" `)
}

func TestMultiWatch(t *testing.T) {
	s := New(Options{})
	defer s.Close()
	a, b := dial(t, s), dial(t, s)
	expect(t, a.do("WATCH", "k"), "+OK")
	expect(t, a.do("MULTI"), "+OK")
	expect(t, a.do("INCR", "k"), "+QUEUED")
	expect(t, b.do("SET", "k", "5"), "+OK")
	expect(t, a.do("EXEC"), "_")
	expect(t, a.do("MULTI"), "+OK")
	expect(t, a.do("INCR", "k"), "+QUEUED")
	expect(t, a.do("GET", "k"), "+QUEUED")
	expect(t, a.do("EXEC"), `[:6 "6"]`)
	expect(t, a.do("MULTI"), "+OK")
	expect(t, a.do("BOGUS"), "-ERR unknown command 'BOGUS', with args beginning with: ")
	expect(t, a.do("EXEC"), "-EXECABORT Transaction discarded because of previous errors.")
	expect(t, a.do("DISCARD"), "-ERR DISCARD without MULTI")
	expect(t, a.do("MULTI"), "+OK")
	expect(t, a.do("DISCARD"), "+OK")
}

func TestTrackingOrder(t *testing.T) {
	for _, after := range []bool{false, true} {
		s := New(Options{InvalidateAfterReply: after})
		a, b, c2 := dial(t, s), dial(t, s), dial(t, s)
		a.do("HELLO", "3")
		b.do("HELLO", "3")
		expect(t, a.do("CLIENT", "CACHING", "YES"), "-ERR CLIENT CACHING YES is only valid when tracking is enabled in OPTIN mode.")
		expect(t, a.do("CLIENT", "TRACKING", "ON", "OPTIN"), "+OK")
		expect(t, b.do("CLIENT", "TRACKING", "ON"), "+OK")
		expect(t, c2.do("CLIENT", "TRACKING", "ON"), "+OK") // RESP2: accepted, never notified
		expect(t, a.do("GET", "k"), "_")                    // not remembered: no CACHING YES
		expect(t, b.do("GET", "k"), "_")
		expect(t, c2.do("GET", "k"), "_")
		expect(t, a.do("CLIENT", "CACHING", "YES"), "+OK")
		expect(t, a.do("MULTI"), "+OK")
		expect(t, a.do("PTTL", "j"), "+QUEUED")
		expect(t, a.do("GET", "j"), "+QUEUED")
		expect(t, a.do("EXEC"), "[:-2 _]")
		expect(t, a.do("GET", "j2"), "_") // flag is gone
		// b writes k: own invalidation before (or after) the reply
		b.send("SET", "k", "1")
		if after {
			expect(t, b.read(), "+OK")
			expect(t, b.read(), `>["invalidate" ["k"]]`)
		} else {
			expect(t, b.read(), `>["invalidate" ["k"]]`)
			expect(t, b.read(), "+OK")
		}
		expect(t, b.do("SET", "k", "2"), "+OK") // forgotten after one invalidation
		expect(t, b.do("SET", "j", "2"), "+OK")
		expect(t, b.do("SET", "j2", "2"), "+OK")
		expect(t, a.read(), `>["invalidate" ["j"]]`)
		expect(t, b.do("FLUSHALL"), `>["invalidate" _]`)
		expect(t, b.read(), "+OK")
		expect(t, a.read(), `>["invalidate" _]`)
		expect(t, c2.do("PING"), "+PONG")
		// BCAST with prefix and NOLOOP, push after the reply
		d := dial(t, s)
		d.do("HELLO", "3")
		expect(t, d.do("CLIENT", "TRACKING", "ON", "PREFIX", "p:"), "-ERR PREFIX option requires BCAST mode to be enabled")
		expect(t, d.do("CLIENT", "TRACKING", "ON", "BCAST", "PREFIX", "p:"), "+OK")
		expect(t, d.do("SET", "p:1", "x"), "+OK")
		expect(t, d.read(), `>["invalidate" ["p:1"]]`)
		expect(t, d.do("SET", "q:1", "x"), "+OK")
		expect(t, d.do("CLIENT", "TRACKING", "OFF"), "+OK")
		expect(t, d.do("CLIENT", "TRACKING", "ON", "BCAST", "NOLOOP"), "+OK")
		expect(t, d.do("SET", "p:1", "x"), "+OK")
		expect(t, b.do("SET", "p:2", "x"), "+OK")
		expect(t, d.read(), `>["invalidate" ["p:2"]]`)
		// expiry invalidates, multi-key injection
		expect(t, b.do("SET", "e", "1", "PX", "5"), "+OK")
		expect(t, b.do("GET", "e"), `"1"`)
		s.Advance(time.Second)
		expect(t, b.read(), `>["invalidate" ["e"]]`)
		s.Inject(2, Push{"invalidate", []any{"x", "y"}})
		expect(t, b.read(), `>["invalidate" ["x" "y"]]`)
		var pushes []string
		for _, o := range s.ConnOuts(2) {
			if o.IsPush {
				pushes = append(pushes, fmt.Sprintf("%s%v%v", o.Kind, o.Args, o.Flush))
			}
		}
		want := []string{"invalidate[k]false", "invalidate[]true", "invalidate[e]false", "invalidate[x y]false"}
		if !reflect.DeepEqual(pushes, want) {
			t.Fatalf("%v", pushes)
		}
		s.Close()
	}
}

func TestPubSub(t *testing.T) {
	s := New(Options{})
	defer s.Close()
	a, b, p := dial(t, s), dial(t, s), dial(t, s)
	a.do("HELLO", "3")
	a.send("SUBSCRIBE", "c1", "c2")
	expect(t, a.read(), `>["subscribe" "c1" :1]`)
	expect(t, a.read(), `>["subscribe" "c2" :2]`)
	expect(t, a.do("PSUBSCRIBE", "c*"), `>["psubscribe" "c*" :3]`)
	expect(t, a.do("SSUBSCRIBE", "s"), `>["ssubscribe" "s" :1]`)
	expect(t, b.do("SUBSCRIBE", "c1"), `["subscribe" "c1" :1]`)
	expect(t, b.do("GET", "k")[:24], "-ERR Can't execute 'get'")
	expect(t, b.do("PING"), `["pong" ""]`)
	expect(t, p.do("PUBLISH", "c1", "m1"), ":3")
	expect(t, p.do("SPUBLISH", "s", "m2"), ":1")
	expect(t, p.do("PUBLISH", "zz", "m3"), ":0")
	expect(t, a.read(), `>["message" "c1" "m1"]`)
	expect(t, a.read(), `>["pmessage" "c*" "c1" "m1"]`)
	expect(t, a.read(), `>["smessage" "s" "m2"]`)
	expect(t, b.read(), `["message" "c1" "m1"]`)
	expect(t, a.do("GET", "k"), "_") // RESP3: regular commands still work
	// the publisher's own message precedes the PUBLISH reply
	a.send("PUBLISH", "c2", "own")
	expect(t, a.read(), `>["message" "c2" "own"]`)
	expect(t, a.read(), `>["pmessage" "c*" "c2" "own"]`)
	expect(t, a.read(), ":2")
	a.send("UNSUBSCRIBE")
	expect(t, a.read(), `>["unsubscribe" "c1" :2]`)
	expect(t, a.read(), `>["unsubscribe" "c2" :1]`)
	expect(t, a.do("UNSUBSCRIBE"), `>["unsubscribe" _ :1]`)
	expect(t, a.do("PUNSUBSCRIBE", "c*"), `>["punsubscribe" "c*" :0]`)
	expect(t, a.do("SUNSUBSCRIBE"), `>["sunsubscribe" "s" :0]`)
	expect(t, b.do("UNSUBSCRIBE"), `["unsubscribe" "c1" :0]`)
	expect(t, b.do("GET", "k"), "_")
	for _, g := range [][3]string{{"*", "", "y"}, {"a*c", "abbc", "y"}, {"a?c", "ac", "n"}, {"[a-c]x", "bx", "y"}, {"[^a]x", "ax", "n"}, {`\*`, "*", "y"}, {"a*", "b", "n"}, {"h[ae]llo", "hello", "y"}} {
		if Glob(g[0], g[1]) != (g[2] == "y") {
			t.Fatalf("glob %v", g)
		}
	}
}

func TestRulesAndFaults(t *testing.T) {
	s := New(Options{TagErrors: true})
	defer s.Close()
	c := dial(t, s)
	h := s.AddRule(Rule{Match: Cmd("client", "setinfo"), Err: "ERR nope", Times: 1})
	expect(t, c.do("CLIENT", "SETINFO", "LIB-NAME", "x"), "-ERR nope [cmd=1]")
	expect(t, c.do("CLIENT", "SETINFO", "LIB-NAME", "x"), "+OK")
	if ci, _ := s.Conn(1); ci.LibName != "x" || h.Fired() != 1 {
		t.Fatal("rule executed the command or did not expire")
	}
	s.AddRule(Rule{Match: Cmd("GET"), Skip: 1, Times: 1, Reply: Encode(2, "scripted"), Exec: true})
	expect(t, c.do("GET", "k"), "_")
	expect(t, c.do("GET", "k"), `"scripted"`)
	gate := make(chan struct{})
	s.AddRule(Rule{Match: Cmd("ECHO", "slow"), Gate: gate, Delay: time.Millisecond})
	c.send("ECHO", "slow")
	c.send("ECHO", "next")
	if !s.WaitFor(time.Second, func() bool { return len(s.ConnOuts(1)) == 6 }) {
		t.Fatal("replies were not queued")
	}
	c.nc.SetReadDeadline(time.Now().Add(20 * time.Millisecond))
	if _, err := c.r.Peek(1); err == nil {
		t.Fatal("gated reply was written")
	}
	close(gate)
	expect(t, c.read(), `"slow"`)
	expect(t, c.read(), `"next"`)
	for _, f := range []Fault{DropBefore, DropAfter, HalfReply, Stall} {
		d := dial(t, s)
		s.AddRule(Rule{Match: OnConn(s.NumConns(), Cmd("INCR")), Fault: f})
		before := d.do("GET", "ctr")
		d.send("INCR", "ctr")
		d.nc.SetReadDeadline(time.Now().Add(50 * time.Millisecond))
		rest, err := io.ReadAll(d.r)
		after := c.do("GET", "ctr")
		switch f {
		case DropBefore:
			if len(rest) != 0 || err != nil || after != before {
				t.Fatalf("DropBefore %q %v %s %s", rest, err, before, after)
			}
		case DropAfter:
			if len(rest) != 0 || err != nil || after == before {
				t.Fatalf("DropAfter %q %v", rest, err)
			}
		case HalfReply:
			if string(rest) != ":2" || err != nil || after == before {
				t.Fatalf("HalfReply %q %v", rest, err)
			}
		case Stall:
			if len(rest) != 0 || err == nil || after == before {
				t.Fatalf("Stall %q %v", rest, err)
			}
			d.send("PING") // still read by the server, never answered
			if !s.WaitFor(time.Second, func() bool { l := s.ConnLog(s.NumConns()); return l[len(l)-1].Argv[0] == "PING" }) {
				t.Fatal("stalled connection stopped reading")
			}
		}
	}
	k := dial(t, s)
	s.Kill(s.NumConns())
	if r := k.read(); !strings.HasPrefix(r, "EOF") {
		t.Fatal(r)
	}
}

func TestConcurrentDeterministicLog(t *testing.T) {
	s := New(Options{})
	defer s.Close()
	var wg sync.WaitGroup
	for i := 0; i < 8; i++ {
		c := dial(t, s)
		wg.Add(1)
		go func() {
			defer wg.Done()
			c.do("HELLO", "3")
			c.do("CLIENT", "TRACKING", "ON")
			for j := 0; j < 200; j++ {
				c.send("INCR", "shared")
				c.send("GET", "shared")
				for n := 0; n < 2; {
					if r := c.read(); r[0] != '>' {
						n++
					} else if r != `>["invalidate" ["shared"]]` {
						panic(r)
					}
				}
			}
		}()
	}
	wg.Wait()
	// replies of every connection answer its commands in order; INCR values are unique
	seen := map[uint64]bool{}
	last := map[int]uint64{}
	for _, o := range s.Outs() {
		if !o.IsPush {
			if seen[o.ID] || o.ID <= last[o.Conn] {
				t.Fatalf("reply order broken at %+v", o)
			}
			seen[o.ID], last[o.Conn] = true, o.ID
		}
	}
	if len(seen) != len(s.Log()) {
		t.Fatalf("%d replies for %d commands", len(seen), len(s.Log()))
	}
}
