module github.com/redis/rueidis/zzverif/fakeredis

go 1.23
