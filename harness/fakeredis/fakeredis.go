// Package fakeredis is a small, deterministic, in-memory Redis-like server that
// speaks RESP2/RESP3 over net.Pipe. It is part of the TRUSTED BASE of several
// /verif properties (C25-C27, C47, ...): what a check observes "on the server"
// is what this file logs. It does not import rueidis.
//
// # README - exactly what is implemented and assumed
//
// Transport: Server.Dial has the signature of rueidis ClientOption.DialCtxFn and
// returns one end of a net.Pipe; every connection gets an id 1,2,3,... in dial
// order. One reader goroutine per connection parses commands (arrays of bulk
// strings only; anything else closes the connection) and executes each command
// atomically under one server mutex, in arrival order (Entry.ID is the global
// execution order). One writer goroutine per connection drains an unbounded
// per-connection frame queue, so the server never blocks on a slow client and
// frames of one connection are written in the order they were queued.
//
// Logs: Log() = all commands (connection id, command id, argv) in execution
// order; Outs() = all frames queued to clients (replies carry the id of the
// command they answer, pushes the id of the command that caused them) in
// queueing order, which per connection is the wire order.
//
// Session: HELLO [2|3 [AUTH user pass] [SETNAME name]] (reply map has the extra
// field "cmdid"; Options.RejectHello answers "ERR unknown command 'HELLO'" so
// that clients fall back to RESP2), AUTH [user] pass against Options.Users (a
// non-empty password of user "default" makes authentication mandatory: every
// other command answers NOAUTH), SELECT 0..15, CLIENT SETNAME / GETNAME /
// SETINFO LIB-NAME|LIB-VER / NO-TOUCH ON|OFF / NO-EVICT ON|OFF / ID / CAPA /
// TRACKING / CACHING, READONLY, READWRITE, PING [msg], ECHO, QUIT, ROLE, INFO,
// CLUSTER SLOTS (Options.Cluster: one node owning slots 0-16383; otherwise the
// "cluster support disabled" error),
// FAKE.ID [payload] (answers "<conn>:<cmdid>:<payload>").
//
// Keyspace (16 databases, strings and hashes, wrong type -> WRONGTYPE): GET,
// SET k v [EX s|PX ms] [NX|XX], DEL, INCR, MGET, PTTL, PEXPIRE, EXISTS, HSET,
// HGET, HGETALL (field order = sorted), FLUSHALL, FLUSHDB. Time is a manual
// clock (Now/SetNow/Advance); keys expire lazily on access and actively, in
// sorted key order, inside Advance.
//
// Transactions: MULTI / EXEC / DISCARD / WATCH / UNWATCH with per-key versions;
// an unknown or mis-arity command inside MULTI makes EXEC answer EXECABORT;
// Pub/Sub commands inside MULTI are rejected (deviation from Redis).
//
// Client-side caching: CLIENT TRACKING ON|OFF [OPTIN] [OPTOUT] [BCAST] [PREFIX p]...
// [NOLOOP] (REDIRECT unsupported), CLIENT CACHING YES|NO (flag lives until the
// next non-CLIENT command outside MULTI has run, as in Redis). The tracking table
// maps key NAME (not database) -> connections, as in Redis. A read-only command
// remembers its keys; a modification (also expiry) sends `>invalidate [key]` to
// every remembered connection and forgets the key; FLUSHALL/FLUSHDB send
// `>invalidate null` to every tracking connection. Pushes are only delivered to
// RESP3 connections. Order: pushes to OTHER connections are queued at the moment
// the writing command executes (asynchronous but in order); the push to the
// WRITER's own connection is queued BEFORE the reply of the writing command
// (Redis 6 order; Options.InvalidateAfterReply selects the Redis >= 7 order).
// BCAST pushes are queued after the writing command's reply (Redis sends them in
// beforeSleep). One key per push; Inject can send multi-key pushes.
//
// Pub/Sub: SUBSCRIBE, UNSUBSCRIBE, PSUBSCRIBE, PUNSUBSCRIBE, SSUBSCRIBE,
// SUNSUBSCRIBE, PUBLISH, SPUBLISH. Confirmations are one frame per channel
// (RESP3 push / RESP2 array) carrying the subscription count; UNSUBSCRIBE
// without arguments leaves all channels in SORTED order (Redis: dict order) or
// answers [kind, null, 0]. PUBLISH delivers connection by connection in id
// order: `message` if subscribed, then one `pmessage` per matching pattern in
// sorted pattern order (glob: * ? [set] \x). A publisher that is subscribed gets
// its message before the PUBLISH reply. A RESP2 connection with subscriptions
// only accepts (P|S)(UN)SUBSCRIBE, PING (answers [pong, ""]), QUIT.
//
// Scripting and faults: AddRule installs a predicate-matched override: raw RESP
// frame or error instead of the reply (command not executed unless Rule.Exec),
// Delay / Gate before the reply is written (later frames of the connection wait
// behind it), and fault points DropBefore (close instead of executing),
// DropAfter (execute, close, no reply), HalfReply (execute, write half of the
// reply bytes, close), Stall (execute, never write anything again). A dropped
// connection still delivers the frames queued before the fault (as TCP would) and
// neither executes nor logs later commands. Kill closes a
// connection from the server side; Inject queues an arbitrary frame.
//
// NOT implemented: inline commands, REDIRECT tracking, cluster/sentinel commands,
// ACL beyond user/password, RESET, keyspace eviction, Lua, blocking commands.
package fakeredis

import (
	"bufio"
	"context"
	"crypto/tls"
	"errors"
	"fmt"
	"io"
	"net"
	"sort"
	"strconv"
	"strings"
	"sync"
	"time"
)

// ---------------------------------------------------------------- RESP values

type (
	Status    string   // simple string
	Err       string   // error
	Map       []any    // k1, v1, k2, v2, ... (RESP2: flat array)
	Push      []any    // RESP3 push (RESP2: array)
	Raw       []byte   // literal bytes
	NullArray struct{} // RESP2 *-1 / RESP3 _
)

// Encode renders v (Status, Err, int, int64, string = bulk, nil = null, []any,
// Map, Push, Raw, NullArray) for the given protocol version.
func Encode(proto int, v any) []byte { return enc(nil, proto, v) }

func enc(b []byte, proto int, v any) []byte {
	list := func(b []byte, typ byte, n int, xs []any) []byte {
		b = append(append(append(b, typ), strconv.Itoa(n)...), "\r\n"...)
		for _, x := range xs {
			b = enc(b, proto, x)
		}
		return b
	}
	switch x := v.(type) {
	case nil:
		if proto >= 3 {
			return append(b, "_\r\n"...)
		}
		return append(b, "$-1\r\n"...)
	case NullArray:
		if proto >= 3 {
			return append(b, "_\r\n"...)
		}
		return append(b, "*-1\r\n"...)
	case Status:
		return append(append(append(b, '+'), x...), "\r\n"...)
	case Err:
		return append(append(append(b, '-'), x...), "\r\n"...)
	case int:
		return append(append(append(b, ':'), strconv.Itoa(x)...), "\r\n"...)
	case int64:
		return append(append(append(b, ':'), strconv.FormatInt(x, 10)...), "\r\n"...)
	case string:
		b = append(append(append(b, '$'), strconv.Itoa(len(x))...), "\r\n"...)
		return append(append(b, x...), "\r\n"...)
	case []any:
		return list(b, '*', len(x), x)
	case Map:
		if proto >= 3 {
			return list(b, '%', len(x)/2, x)
		}
		return list(b, '*', len(x), x)
	case Push:
		if proto >= 3 {
			return list(b, '>', len(x), x)
		}
		return list(b, '*', len(x), x)
	case Raw:
		return append(b, x...)
	}
	panic(fmt.Sprintf("fakeredis: cannot encode %T", v))
}

// ---------------------------------------------------------------- public types

type Options struct {
	RejectHello          bool              // HELLO answers "ERR unknown command 'HELLO'..." (forces the RESP2 fallback)
	Version              string            // reported by HELLO / INFO, default "7.2.0"
	Users                map[string]string // user -> password; non-empty password for "default" makes AUTH mandatory
	Role                 string            // "master" (default), "slave" or "sentinel"
	AZ                   string            // availability_zone reported by INFO when non-empty
	InvalidateAfterReply bool              // Redis >= 7 order for the writer's own invalidation
	TagErrors            bool              // append " [cmd=<id>]" to error replies
	Cluster              bool              // answer CLUSTER SLOTS as a one-node cluster owning all slots (node address 127.0.0.1:6379)
	OnDial               func(addr string) error
}

// Entry is one received command.
type Entry struct {
	Conn int
	ID   uint64 // global execution order, 1,2,3,...
	Argv []string
}

// Out is one frame queued to a client.
type Out struct {
	Seq    uint64 // global queueing order
	Conn   int
	IsPush bool     // invalidate / message / pmessage / smessage / injected frame (confirmations are replies)
	ID     uint64   // reply: the command answered; push: the command that caused it (0: clock, Inject)
	Kind   string   // push kind
	Args   []string // invalidate: keys; message: channel,payload; pmessage: pattern,channel,payload
	Flush  bool     // invalidate with null
	Reply  string   // reply: first line of the frame, e.g. "+OK", "-ERR ...", "%7", "$3"
}

// ConnInfo is a snapshot of the session state of a connection.
type ConnInfo struct {
	ID, Proto, DB                          int
	Addr, User, Name, LibName, LibVer      string
	Authed, ReadOnly, NoTouch, NoEvict     bool
	Tracking, OptIn, OptOut, BCast, NoLoop bool
	Prefixes                               []string
	InMulti, Closed                        bool
	Subs, PSubs, SSubs                     []string
}

type Fault int

const (
	NoFault    Fault = iota
	DropBefore       // close the connection instead of executing the command
	DropAfter        // execute, then close without replying
	HalfReply        // execute, write the first half of the reply bytes, close
	Stall            // execute, then never write anything on this connection again
)

// Rule overrides the handling of matching commands. Rules are tried in the
// order they were added; the first live match wins.
type Rule struct {
	Match func(conn int, argv []string) bool
	Skip  int             // let this many matches pass first
	Times int             // fire this many times (0 = unlimited)
	Reply []byte          // raw RESP sent instead of the normal reply
	Err   string          // shorthand for Reply "-<Err>\r\n"
	Exec  bool            // with Reply/Err: still execute the command
	Delay time.Duration   // real-time sleep of the connection's writer before this reply
	Gate  <-chan struct{} // the writer waits for this channel to be closed before this reply
	Fault Fault

	seen, fired int
	dead        bool
}

// RuleHandle controls an installed rule.
type RuleHandle struct {
	s *Server
	r *Rule
}

func (h *RuleHandle) Remove() { h.s.mu.Lock(); h.r.dead = true; h.s.mu.Unlock() }
func (h *RuleHandle) Fired() int {
	h.s.mu.Lock()
	defer h.s.mu.Unlock()
	return h.r.fired
}

// Cmd matches commands whose first words equal prefix (case-insensitive).
func Cmd(prefix ...string) func(int, []string) bool {
	return func(_ int, argv []string) bool {
		if len(argv) < len(prefix) {
			return false
		}
		for i, p := range prefix {
			if !strings.EqualFold(argv[i], p) {
				return false
			}
		}
		return true
	}
}

// OnConn restricts a matcher to one connection.
func OnConn(id int, m func(int, []string) bool) func(int, []string) bool {
	return func(c int, argv []string) bool { return c == id && m(c, argv) }
}

// ---------------------------------------------------------------- server

type val struct {
	s   string
	h   map[string]string
	exp time.Time
}

type item struct {
	data  []byte
	delay time.Duration
	gate  <-chan struct{}
	close bool
	stall bool
}

type conn struct {
	ConnInfo
	nc      net.Conn
	caching int // 0 none, 1 YES, -1 NO
	queued  [][]string
	dirty   bool // MULTI saw an invalid command
	watch   map[string]uint64
	subs    [3]map[string]struct{}
	outq    []item
	drop    bool // a fault closes the connection once the frames queued so far are written
	cond    *sync.Cond
	done    chan struct{}
}

type Server struct {
	mu      sync.Mutex
	opt     Options
	now     time.Time
	nextID  uint64
	nextSeq uint64
	conns   []*conn
	log     []Entry
	outs    []Out
	dbs     map[int]map[string]*val
	ver     map[string]uint64
	track   map[string]map[int]struct{}
	rules   []*Rule
	cur     uint64 // id of the command being executed
	curConn *conn
	defer_  []func()
	changed chan struct{}
	closed  bool
}

func New(opt Options) *Server {
	if opt.Version == "" {
		opt.Version = "7.2.0"
	}
	if opt.Role == "" {
		opt.Role = "master"
	}
	return &Server{opt: opt, now: time.Unix(1_700_000_000, 0), dbs: map[int]map[string]*val{},
		ver: map[string]uint64{}, track: map[string]map[int]struct{}{}, changed: make(chan struct{})}
}

// Dial matches rueidis.ClientOption.DialCtxFn.
func (s *Server) Dial(ctx context.Context, addr string, _ *net.Dialer, _ *tls.Config) (net.Conn, error) {
	if err := ctx.Err(); err != nil {
		return nil, err
	}
	s.mu.Lock()
	defer s.mu.Unlock()
	if s.closed {
		return nil, errors.New("fakeredis: server closed")
	}
	if s.opt.OnDial != nil {
		if err := s.opt.OnDial(addr); err != nil {
			return nil, err
		}
	}
	cli, srv := net.Pipe()
	c := &conn{nc: srv, done: make(chan struct{}), cond: sync.NewCond(&s.mu), watch: map[string]uint64{}}
	c.ID, c.Addr, c.Proto, c.User = len(s.conns)+1, addr, 2, "default"
	c.Authed = s.opt.Users["default"] == ""
	for i := range c.subs {
		c.subs[i] = map[string]struct{}{}
	}
	s.conns = append(s.conns, c)
	s.notify()
	go s.reader(c)
	go s.writer(c)
	return cli, nil
}

// Close closes every connection and refuses further dials.
func (s *Server) Close() {
	s.mu.Lock()
	defer s.mu.Unlock()
	s.closed = true
	for _, c := range s.conns {
		s.closeConn(c)
	}
}

func (s *Server) SetOptions(f func(*Options)) { s.mu.Lock(); f(&s.opt); s.mu.Unlock() }

func (s *Server) Now() time.Time { s.mu.Lock(); defer s.mu.Unlock(); return s.now }
func (s *Server) SetNow(t time.Time) {
	s.mu.Lock()
	defer s.mu.Unlock()
	s.now = t
	s.expireAll()
}

// Advance moves the clock and actively expires keys (sorted order), sending invalidations.
func (s *Server) Advance(d time.Duration) { s.SetNow(s.Now().Add(d)) }

func (s *Server) Log() []Entry {
	s.mu.Lock()
	defer s.mu.Unlock()
	return append([]Entry(nil), s.log...)
}
func (s *Server) ConnLog(id int) (r []Entry) {
	for _, e := range s.Log() {
		if e.Conn == id {
			r = append(r, e)
		}
	}
	return r
}
func (s *Server) Outs() []Out { s.mu.Lock(); defer s.mu.Unlock(); return append([]Out(nil), s.outs...) }
func (s *Server) ConnOuts(id int) (r []Out) {
	for _, o := range s.Outs() {
		if o.Conn == id {
			r = append(r, o)
		}
	}
	return r
}
func (s *Server) NumConns() int { s.mu.Lock(); defer s.mu.Unlock(); return len(s.conns) }
func (s *Server) Conn(id int) (ci ConnInfo, ok bool) {
	s.mu.Lock()
	defer s.mu.Unlock()
	if id < 1 || id > len(s.conns) {
		return ci, false
	}
	c := s.conns[id-1]
	ci = c.ConnInfo
	ci.Prefixes = append([]string(nil), c.Prefixes...)
	ci.Subs, ci.PSubs, ci.SSubs = keys(c.subs[0]), keys(c.subs[1]), keys(c.subs[2])
	return ci, true
}

// Kill closes a connection from the server side.
func (s *Server) Kill(id int) {
	s.mu.Lock()
	defer s.mu.Unlock()
	if id >= 1 && id <= len(s.conns) {
		s.closeConn(s.conns[id-1])
	}
}

// Inject queues an arbitrary frame (encoded for the connection's protocol) as a push.
func (s *Server) Inject(id int, v any) {
	s.mu.Lock()
	defer s.mu.Unlock()
	if id >= 1 && id <= len(s.conns) {
		c := s.conns[id-1]
		o := Out{IsPush: true, Kind: "inject"}
		if p, ok := v.(Push); ok && len(p) > 0 {
			o.Kind, _ = p[0].(string)
			for _, x := range p[1:] {
				switch y := x.(type) {
				case string:
					o.Args = append(o.Args, y)
				case []any:
					for _, z := range y {
						o.Args = append(o.Args, fmt.Sprint(z))
					}
				case nil:
					o.Flush = true
				}
			}
		}
		s.queue(c, item{data: Encode(c.Proto, v)}, o)
	}
}

func (s *Server) AddRule(r Rule) *RuleHandle {
	s.mu.Lock()
	defer s.mu.Unlock()
	rp := &r
	s.rules = append(s.rules, rp)
	return &RuleHandle{s, rp}
}

// WaitFor re-evaluates pred (which may call any Server method) after every server
// state change until it holds or the timeout passes.
func (s *Server) WaitFor(timeout time.Duration, pred func() bool) bool {
	t := time.NewTimer(timeout)
	defer t.Stop()
	for {
		s.mu.Lock()
		ch := s.changed
		s.mu.Unlock()
		if pred() {
			return true
		}
		select {
		case <-ch:
		case <-t.C:
			return pred()
		}
	}
}

func (s *Server) notify() { close(s.changed); s.changed = make(chan struct{}) }

func keys[V any](m map[string]V) []string {
	r := make([]string, 0, len(m))
	for k := range m {
		r = append(r, k)
	}
	sort.Strings(r)
	return r
}

// ---------------------------------------------------------------- connection plumbing

func readCommand(r *bufio.Reader) ([]string, error) {
	line := func() (string, error) {
		l, err := r.ReadString('\n')
		if err != nil {
			return "", err
		}
		if len(l) < 2 || l[len(l)-2] != '\r' {
			return "", errors.New("bad line")
		}
		return l[:len(l)-2], nil
	}
	l, err := line()
	if err != nil {
		return nil, err
	}
	if len(l) == 0 || l[0] != '*' {
		return nil, errors.New("not an array")
	}
	n, err := strconv.Atoi(l[1:])
	if err != nil || n < 1 || n > 1<<20 {
		return nil, errors.New("bad array length")
	}
	argv := make([]string, n)
	for i := range argv {
		if l, err = line(); err != nil {
			return nil, err
		}
		m, err := strconv.Atoi(strings.TrimPrefix(l, "$"))
		if len(l) == 0 || l[0] != '$' || err != nil || m < 0 || m > 1<<26 {
			return nil, errors.New("bad bulk")
		}
		buf := make([]byte, m+2)
		if _, err = io.ReadFull(r, buf); err != nil {
			return nil, err
		}
		argv[i] = string(buf[:m])
	}
	return argv, nil
}

func (s *Server) reader(c *conn) {
	r := bufio.NewReader(c.nc)
	for {
		argv, err := readCommand(r)
		s.mu.Lock()
		if err != nil {
			s.closeConn(c)
		} else {
			s.handle(c, argv)
		}
		s.mu.Unlock()
		if err != nil {
			return
		}
	}
}

func (s *Server) writer(c *conn) {
	for {
		s.mu.Lock()
		for len(c.outq) == 0 && !c.Closed {
			c.cond.Wait()
		}
		if c.Closed {
			s.mu.Unlock()
			return
		}
		it := c.outq[0]
		c.outq = c.outq[1:]
		s.mu.Unlock()
		if it.stall {
			<-c.done
			return
		}
		if it.gate != nil {
			select {
			case <-it.gate:
			case <-c.done:
				return
			}
		}
		if it.delay > 0 {
			select {
			case <-time.After(it.delay):
			case <-c.done:
				return
			}
		}
		var err error
		if len(it.data) > 0 {
			_, err = c.nc.Write(it.data)
		}
		if err != nil || it.close {
			s.mu.Lock()
			s.closeConn(c)
			s.mu.Unlock()
			return
		}
	}
}

// dropConn closes the connection like a peer that dies: what was queued before is still
// delivered (as TCP would), later commands are neither executed nor logged.
func (s *Server) dropConn(c *conn) {
	c.drop = true
	c.outq = append(c.outq, item{close: true})
	c.cond.Signal()
}

// closeConn must be called with s.mu held.
func (s *Server) closeConn(c *conn) {
	if c.Closed {
		return
	}
	c.Closed = true
	close(c.done)
	c.cond.Broadcast()
	c.nc.Close()
	for _, m := range s.track {
		delete(m, c.ID)
	}
	for i := range c.subs {
		c.subs[i] = map[string]struct{}{}
	}
	c.Tracking = false
	s.notify()
}

func (s *Server) queue(c *conn, it item, o Out) {
	if c.Closed {
		return
	}
	s.nextSeq++
	o.Seq, o.Conn = s.nextSeq, c.ID
	s.outs = append(s.outs, o)
	c.outq = append(c.outq, it)
	c.cond.Signal()
	s.notify()
}

func (s *Server) push(c *conn, kind string, flush bool, args ...string) {
	if c.Closed || c.Proto < 3 && kind == "invalidate" {
		return // RESP2 without REDIRECT: Redis has no way to deliver it
	}
	p := Push{kind}
	switch {
	case flush:
		p = append(p, nil)
	case kind == "invalidate":
		ks := make([]any, len(args))
		for i, a := range args {
			ks[i] = a
		}
		p = append(p, ks)
	default:
		for _, a := range args {
			p = append(p, a)
		}
	}
	s.queue(c, item{data: Encode(c.Proto, p)}, Out{IsPush: true, ID: s.cur, Kind: kind, Args: args, Flush: flush})
}

func (s *Server) matchRule(c *conn, argv []string) *Rule {
	for _, r := range s.rules {
		if r.dead || r.Match == nil || !r.Match(c.ID, argv) {
			continue
		}
		if r.seen++; r.seen <= r.Skip {
			continue
		}
		if r.fired++; r.Times > 0 && r.fired >= r.Times {
			r.dead = true
		}
		return r
	}
	return nil
}

func (s *Server) handle(c *conn, argv []string) {
	if c.Closed || c.drop {
		return
	}
	s.nextID++
	id := s.nextID
	s.log = append(s.log, Entry{Conn: c.ID, ID: id, Argv: argv})
	s.notify()
	r := s.matchRule(c, argv)
	if r == nil {
		r = &Rule{}
	}
	if r.Fault == DropBefore {
		s.dropConn(c)
		return
	}
	s.cur, s.curConn = id, c
	var frames []any
	quit := false
	if (r.Reply == nil && r.Err == "") || r.Exec {
		frames = s.dispatch(c, argv)
		quit = strings.EqualFold(argv[0], "QUIT")
	}
	if r.Err != "" {
		frames = []any{Err(r.Err)}
	} else if r.Reply != nil {
		frames = []any{Raw(r.Reply)}
	}
	if r.Fault == DropAfter {
		s.dropConn(c)
	} else {
		var data []byte
		for _, f := range frames {
			if e, ok := f.(Err); ok && s.opt.TagErrors {
				f = Err(fmt.Sprintf("%s [cmd=%d]", e, id))
			}
			data = enc(data, c.Proto, f)
		}
		it := item{data: data, delay: r.Delay, gate: r.Gate, close: quit}
		switch r.Fault {
		case HalfReply:
			it.data, it.close = data[:len(data)/2], true
		case Stall:
			it.stall = true
		}
		first := string(data)
		if i := strings.Index(first, "\r\n"); i >= 0 {
			first = first[:i]
		}
		s.queue(c, it, Out{ID: id, Reply: first})
	}
	for _, f := range s.defer_ {
		f()
	}
	s.defer_, s.cur, s.curConn = nil, 0, nil
	if !c.InMulti && !strings.EqualFold(argv[0], "CLIENT") {
		c.caching = 0
	}
}
