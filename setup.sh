#!/bin/sh
# One-time offline build of the framework: extractor, generated Lean files, lake project, Go harnesses.
set -e
cd "$(dirname "$0")"
export GOFLAGS=-mod=mod GOPROXY=off
unset GOTOOLCHAIN GOSUMDB || true
mkdir -p tools/bin harness/bin evidence replay
(cd tools/extract && go build -o ../bin/extract .)
tools/bin/extract -repo /repo -out lean/Rv/Gen all
(cd lean && lake build Rv $(cat drv_targets.txt))
for d in harness/*/; do
  h=$(basename "$d")
  [ -f "$d/go.mod" ] || continue
  (cd "$d" && go build -tags verif -o ../bin/"$h" .)
done
echo setup ok
